#!/usr/bin/env python3
"""Merge VERIF_COV dumps and list library lines no exploration executed.
usage: cov_report.py <covdir>... [--repo /repo] [--full]"""
import glob, json, os, sys

def exec_lines(path):
  src = open(path).read()
  out = set()
  def walk(code):
    for _, _, ln in code.co_lines():
      if ln is not None:
        out.add(ln)
    for c in code.co_consts:
      if hasattr(c, 'co_lines'):
        walk(c)
  walk(compile(src, path, 'exec'))
  return out

def ranges(ls):
  ls = sorted(ls); out = []; i = 0
  while i < len(ls):
    j = i
    while j + 1 < len(ls) and ls[j + 1] - ls[j] <= 1:
      j += 1
    out.append(f'{ls[i]}' if i == j else f'{ls[i]}-{ls[j]}'); i = j + 1
  return out

args = [a for a in sys.argv[1:] if not a.startswith('--')]
repo = '/repo'
if '--repo' in sys.argv:
  repo = sys.argv[sys.argv.index('--repo') + 1]; args.remove(repo)
hit = {}
for d in args:
  for f in glob.glob(os.path.join(d, '*.json')):
    for fn, ln in json.load(open(f)):
      hit.setdefault(fn, set()).add(ln)
root = os.path.join(repo, 'ai_edge_quantizer')
tot = cov = 0
for dp, _, fns in sorted(os.walk(root)):
  for fn in sorted(fns):
    if not fn.endswith('.py') or fn.endswith('_test.py') or 'test_utils' in fn:
      continue
    p = os.path.join(dp, fn)
    ex = exec_lines(p)
    h = hit.get(p, set()) & ex
    tot += len(ex); cov += len(h)
    miss = ex - h
    print(f'{len(h):5d}/{len(ex):5d} {os.path.relpath(p, repo)}')
    if miss and '--full' in sys.argv:
      print('        missing:', ' '.join(ranges(miss)))
print(f'total {cov}/{tot}')
