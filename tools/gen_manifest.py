#!/usr/bin/env python3
"""Regenerates /verif/MANIFEST.json from the table below (python3, stdlib)."""
import json
import os
import subprocess

HERE = os.path.dirname(os.path.dirname(os.path.abspath(__file__)))

E1 = 'E1 pipeline explorer'
E2 = 'E2 API-history explorer'
E3 = 'E3 lattice sweep'

# id -> (engine, technique, level text, level note, design ref)
CHECKS = {
    'C01': (E1,
            'bounded-exhaustive BFS over graph histories x recipes on the real '
            'quantize(), structural invariant + LiteRT run per state',
            'Every complete graph history up to the depth bound (all 21 '
            'supported ops + unsupported ops at depth<=2 incl. extended attribute '
            'variants at depth 1, representative classes at depth 3-4, '
            'two-signature models, the op-replacement/blockwise mode on rank-3 '
            'FULLY_CONNECTED) is quantized under every recipe of the recipe '
            'alphabet; each returned model is parsed independently, '
            'checked for index ranges, unique names, single producer, valid '
            'execution order and I/O/signature references, then allocated '
            'and invoked in LiteRT in a journaled worker process so aborts '
            'are attributed to the exact case. A coverage statement within '
            'the stated alphabet and bound, not a sample.',
            'Trusted: ai_edge_litert schema object API + interpreter, my IR '
            'builder. Not covered: graphs beyond the depth bound, operator '
            'attributes outside the variant alphabet.', '7/C01'),
}

CHECKS.update({
    'C02': (E1, 'bounded-exhaustive BFS over graph histories x recipes; skeleton '
            'extraction (contract inserted Q/DQ) compared with the input IR',
            'Same universe as C01 (minus the blockwise mode, which the property '
            'excludes) plus signature entries / subgraph I/O listed in the '
            'opposite order and two-signature models. For every returned model the inserted '
            'QUANTIZE/DEQUANTIZE ops are contracted and the result must equal '
            'the input graph exactly (operators, order, packed options, operand '
            'roots, tensor index/name/shape), plus the subgraph I/O and '
            'signature contract and float model I/O unless the reference recipe '
            'model resolves INPUT/OUTPUT to a quantized mode.',
            'Trusted: my IR builder and parser, the reference recipe model '
            '(vf/ref_recipe.py). The op-replacement (blockwise) mode is outside '
            'the alphabet, as the property excludes it.', '7/C02'),
    'C03': (E1, 'bounded-exhaustive BFS over graph histories x all per-operator '
            'mode assignments; operand dtypes compared with a reference mode table',
            'All ordered mode pairs for adjacent operators and for consumers '
            'sharing a tensor (depth<=2 over all 23 op types, depth 3 over the '
            'class representatives), layered recipes with no_quantize overrides '
            'and INPUT/OUTPUT rules. Each operand and result dtype of each '
            'original operator in the output is compared with the R-mode '
            'table; no-quantize constants must be byte-identical; index '
            'operands untouched; inserted ops type-correct.',
            'Trusted: R-mode table (vf/ref_mode.py) written from the TFLite '
            'spec; reference recipe resolution takes the observable '
            'accept/refuse answer of the support check as an input.', '7/C03'),
    'C08': (E1, 'bounded-exhaustive BFS over graph histories x the shipped recipes; '
            'oracle: no exception',
            'Every complete graph history within the bounds (all 21 supported '
            'ops + unsupported ops at depth<=2, class representatives at depth '
            '3-4, exported intermediates, reversed signature and I/O order, '
            'two-signature models) is calibrated and quantized with each '
            'shipped recipe file and the recipe helper, loaded unchanged; any '
            'exception from load/calibrate/quantize is a violation.',
            'Float run of the graph on the calibration input must be finite '
            '(otherwise skipped and counted).', '7/C08'),
})
CHECKS.update({
    'C04': (E1, 'bounded-exhaustive BFS over graph histories x mode assignments x '
            'data/weight pools; every quantization parameter re-derived by a '
            'reference model (R-arith on R-stats) and compared',
            'Every quantized tensor of every output model (all 21 ops and '
            'variants at depth<=2, same-scale/fixed-range chains at depth 3, '
            'degenerate calibration ranges and weight pools) is explained by '
            'exactly one rule of the TFLite spec and its scale/zero point/'
            'quantized dimension must equal the independently computed value; a '
            'coverage clause rejects quantized tensors no rule accounts for.',
            'Trusted: vf/ref_arith.py (float64 formulas), own interpreter run for '
            'statistics. Calibration is a single sample here (C09 covers the '
            'moving average).', '7/C04'),
    'C05': (E1, 'exhaustive enumeration of one-operator contexts x shapes x value '
            'pools x all accepted modes; independent decode of every stored element',
            'For every constant-bearing operator variant, input shape (incl. odd '
            'element counts and non-leading quantized dimension), weight value '
            'pool and accepted mode, every element of every rewritten constant is '
            'decoded by an independent decoder (int4 nibbles, per-channel '
            'dequantisation, float16) and compared with the original within the '
            'stated step bound; buffer byte lengths must match shape and dtype.',
            'Trusted: vf/fbparse.py decoder. Bound (1/2 or 1 step) times '
            '(1+2^(bits-21)) for float32 evaluation in the library.', '7/C05'),
    'C17': (E3, 'exhaustive sweep of a finite lattice (ranges x bits x symmetry x all '
            'integer codes x tensor shapes) on the real arithmetic functions',
            'All ordered (min,max) pairs over a 17-point grid incl. degenerate, '
            'one-sided, tiny and huge ranges x bits {4,8,16} x symmetry; for each, '
            'all integer codes and 5 fractional offsets per code; all tensor '
            'shapes of rank 0-4 over dims {1,2,3} with every quantized dimension; '
            'bias quantization over a scale grid. Laws checked against float64 '
            'reference formulas.',
            'Value grid is finite: real-valued inputs are covered only on the '
            'grid (stated in DESIGN.md section 1).', '7/C17'),
})
CHECKS.update({
    'C11': (E2, 'explicit-state search over all update/load histories up to a depth '
            'bound on a fresh Quantizer, lock-step with a reference recipe model, '
            'revisit agreement',
            'All histories of length <=3 (quick) / <=4 (thorough) over the event '
            'alphabet (3 regexes x 3-4 operator selectors x 6-8 config/algorithm '
            'combinations incl. refused ones, 4 loads) are replayed on fresh '
            'objects; at every state the exported rule list and a 31-entry '
            'resolution table equal the reference model, queries are pure, '
            'refused calls do not change state, states reached through different '
            'histories resolve identically, and the table is also queried '
            'between the calls of a history (stale caches).',
            'The accept/refuse answer of the support check is an input of the '
            'reference model. Longer histories are not covered.', '7/C11'),
    'C12': (E2, 'explicit-state search over the recipe state space; at every state '
            'JSON round trip + reload into a fresh Quantizer, differential '
            'comparison incl. quantized bytes',
            'At every reachable recipe state (depth <=3 quick / <=4 thorough; configs '
            'built with enum-valued fields as a Python user does, incl. the '
            'blockwise mode) the '
            'exported recipe reloads without exception, re-exports equally and '
            'resolves identically; for depth <=2 three fixed models quantize to '
            'byte-identical output from original and reloaded recipe, also '
            'through QuantizationResult.save(); every shipped recipe file loads '
            'and default files re-export to themselves.',
            'Byte comparison uses four fixed models and one calibration result each.',
            '7/C12'),
})
CHECKS.update({
    'C09': (E2, 'exhaustive enumeration of calibration histories (all datasets up to '
            'length 3 x all splits into resumed sessions) on the real calibrate(), '
            'lock-step with a reference moving-average model',
            'For every model (all 21 ops at depth 1, all pairs at depth 2) x '
            'recipe needing calibration x every input sequence over 3 values up '
            'to length 3 x every composition into resumed sessions: the one-pass '
            'result equals the reference EMA over my own per-sample interpreter '
            'reads (<=2 ulp), constants equal true min/max, every split history '
            'equals the single pass bitwise, the previous result passed in is '
            'unchanged, and the key set equals the tensors of selected operators; '
            'sessions also run on one re-used Quantizer, calibrate() without a '
            'previous result must restart, and two-signature models are '
            'calibrated signature after signature in both orders.',
            'Trusted: own LiteRT interpreter reads; reference EMA in float32.',
            '7/C09'),
    'C14': (E2, 'explicit enumeration of all interleavings of API calls (bounded '
            'length) on two Quantizer objects sharing calibration results; deep '
            'snapshots + fresh-process differential',
            'All interleavings of length <=3 (quick) / <=4 (thorough) of load/'
            'update/calibrate/quantize/validate on two Quantizer objects and 3 '
            'models: every caller-owned object compares equal to its snapshot '
            'after every call; every quantize() result equals the bytes computed '
            'by a fresh process (forked from a zygote that never called the '
            'library) from the snapshotted arguments; a fixed batch is re-run in '
            'new processes under three PYTHONHASHSEED values.',
            'Fresh process = fork of a process that imported but never called the '
            'library; real new processes only for the hash-seed batch.', '7/C14'),
})
CHECKS.update({
    'C06': (E1, 'bounded-exhaustive BFS over graph histories x float-compute mode '
            'assignments x input alphabet; translation validation by executing a '
            'reference program built from the input IR and the decoded constants',
            'For every graph with a weight-bearing operator (depth<=2 with '
            'neighbours, depth 3 representatives) x uniform and per-operator '
            'mixed recipes over weight-only/float16/dynamic-range modes x every '
            'input of the alphabet, the quantized model and a reference program '
            '(input IR + independently decoded constants) run in LiteRT; '
            'weight-only/float16 must agree to float32 rounding, dynamic-range '
            'within the analytic activation-quantisation bound propagated with '
            'Lipschitz constants.',
            'Inputs are covered on the finite alphabet only. The dynamic-range '
            'bound is an upper bound (sound, not tight).', '7/C06'),
    'C07': (E1, 'bounded-exhaustive BFS over graph histories x static-range configs x '
            'calibration inputs; executed comparison with the float model',
            'All 21 ops and variants at depth 1 under all 8 accepted static '
            'configs, all pairs at depth 2, representatives at depth 3, '
            'calibrated on the test input: outputs finite, not constant when the '
            'float output is not, and within 4 output steps + a fixed fraction of '
            'the activation magnitude (measured margin >= 5x on the unchanged '
            'tree).',
            'The bound is the property\'s loose one; C04/C05 carry sharp '
            'detection.', '7/C07'),
})
CHECKS.update({
    'C13': (E3, 'exhaustive enumeration of the finite (operator, config) lattice on the '
            'real update/resolve API, plus execution of every accepted pair',
            'All 22080 lattice points (23 selectors x activation x weight bits x '
            'symmetry x granularity x dtype x compute precision x '
            'explicit_dequantize x algorithm): update for a specific operator '
            'accepts or raises ValueError only; the accept set equals the set a '
            '"*" rule lets through at resolution; every accepted pair is '
            'quantized on every variant of the single-operator model, prepared '
            'and invoked in LiteRT and held to the C06/C07 numeric bounds; a '
            'refused pair under "*" leaves the operator byte-identical.',
            'Numeric soundness judged on single-operator models and the input '
            'alphabet {mix, pos}.', '7/C13'),
    'C16': (E1, 'bounded-exhaustive BFS over graph histories x recipes; differential '
            'comparison of the two serialization paths (hook lowers the threshold)',
            'Every (model, recipe) of the universe that returns is serialized '
            'through the ordinary and, via the guarded hook, the large-model '
            'path; external buffers must be 16-byte aligned, after the '
            'flatbuffer, in bounds, disjoint and byte-equal to the embedded '
            'ones; normalised object trees re-pack identically; LiteRT loads '
            'both with identical outputs. The large path runs on a Quantizer '
            'that already serialized the model under another recipe.',
            'Hook AI_EDGE_QUANTIZER_VERIF_LARGE_MODEL_THRESHOLD only selects the '
            'existing branch. Buffer sizes are small (2..256 bytes).', '7/C16'),
})
CHECKS.update({
    'C10': (E1, 'exhaustive enumeration of a regex alphabet x operator selectors x '
            'configs on separator-isolated operator chains; differential '
            'comparison of the calibration-selected and quantization-selected sets',
            'Chains x->ABS->OP1->ABS->OP2->ABS over 7 supported operators (incl. '
            'the multi-output SPLIT), three tensor-name styles, single- and '
            'two-signature models, 9-12 regexes per target (anchored, with '
            'separators, prefixes, non-matching) x {specific op, *} x {8,16-bit}: '
            'the operators that received statistics equal the operators '
            'quantized, and calibrate()->quantize() never fails for missing '
            'statistics, per signature.',
            'Selection during calibration is observed through the statistics of '
            'tensors made private by unsupported separator ops.', '7/C10'),
})
CHECKS.update({
    'C15': (E1, 'exhaustive enumeration of sharing shapes x sharer types x ALL mode '
            'tuples on the real quantize(); per-buffer consistency invariant',
            'One constant tensor with 2-3 consumers, two tensors on one buffer, '
            'and a buffer shared across two subgraphs/signatures, for sharer '
            'types FC/CONV_2D/EMBEDDING_LOOKUP (weight tying)/ADD-MUL constants, '
            'under every tuple of the 12-mode alphabet: quantize() raises, or '
            'every referencing tensor implies the stored byte length, decodes '
            'within one step, all referrers agree, every consumer reads the '
            'dtype its mode requires, and the model loads.',
            'Mode tuples are exhaustive over the 12-mode alphabet; shapes are the '
            'small generated ones.', '7/C15'),
    'C18': (E1, 'bounded-exhaustive BFS over graph histories x recipes x datasets x '
            'metrics; every reported value recomputed from independent runs',
            'For all ops/variants at depth 1, pairs at depth 2, representatives '
            'at depth 3, under shipped recipes and uniform modes incl. int4 and '
            'float16: the reported names cover every named tensor of the main '
            'subgraph present in both models, each in exactly one group decided '
            'by my own reading of the reference model; each value equals the '
            'metric recomputed from my own interpreter runs and independent '
            'constant decode, averaged over samples; self-comparison is 0 for '
            'every tensor of the model; metric laws hold.',
            'Runtime temporaries reported in addition are not constrained by the '
            'property. Every signature of two-signature models is covered; metric '
            'laws are swept over pairs of small arrays incl. non-finite values.', '7/C18'),
    'C19': (E1, 'exhaustive enumeration of ordered pairs/triples of subgraphs x '
            'recipes; differential comparison multi-subgraph vs stand-alone',
            'Ordered pairs of graphs (all one-operator graphs, all two-operator '
            'graphs next to one-operator graphs; triples and larger pairs in '
            'thorough) with disjoint name prefixes, equal structures under '
            'different names, and a constant buffer shared across subgraphs, '
            'under uniform and mixed recipes with statistics merged from '
            'stand-alone calibrations: subgraph i of quantize(multi) must equal '
            'subgraph 0 of quantize(single_i) in operators, options, wiring, '
            'names, dtypes, parameters and constant bytes.',
            'The stand-alone extract is built from the same IR (same constants).',
            '7/C19'),
})
NOT_YET = {
}

NOT_APPLICABLE = {}


EXTRA = {
    'C01': ' Also: linear chains of 4-6 operators, four-operator DAGs, star '
           'graphs whose 3-4 consumers each ask for a different quantized form, '
           'and the model returned by a second quantize() on the same object.',
    'C03': ' Also linear chains of 4-6 operators and four-operator DAGs with '
           'every NQ/static assignment.',
    'C06': ' Also linear chains of 4-6 weight-bearing operators.',
    'C08': ' Also four-operator DAG families and the same tensor exported twice.',
    'C10': ' Also rules for the virtual INPUT operator, GELU (builtin code >= '
           '127), a second rule under the same regex, and signature_defs listed '
           'in another order than their subgraphs.',
    'C11': ' A reduced 13-event alphabet is explored to depth 5; need_calibration '
           'is part of the observed table.',
    'C13': ' The whole lattice is swept a second time in reverse order (the '
           'answer must not depend on earlier answers); accepted pairs also run '
           'inside two-operator contexts.',
    'C14': ' Plus cross-model histories (two checkpoints with identical tensor '
           'names in one process) and repeated quantization of branching models '
           'with per-consumer rules, both against fresh-process results.',
    'C15': ' Also a sharer the quantizer does not know (MAXIMUM) and tied '
           'constants carrying the same name in two subgraphs.',
    'C16': ' Also byte-identical constant buffers, float models that already '
           'store their constants outside the flatbuffer, and a zero-element '
           'constant (data present, length 0) next to ordinary ones: it must '
           'select no byte and must not shift the other offsets.',
    'C17': ' Also dequantization of 32/64-bit codes.',
    'C19': ' Also pairs of equal-structure subgraphs, recipes scoped by one '
           'subgraph\'s name prefix, and constants with identical names.',
}


def main():
  props = [json.loads(l) for l in open(os.path.join(HERE, 'properties.jsonl'))]
  commits = subprocess.run(
      ['git', '-C', '/repo', 'log', '--format=%h %s', 'dadc525..HEAD'],
      capture_output=True, text=True).stdout.strip().splitlines()
  hook_commits = [c.split()[0] for c in commits if c.split(' ', 1)[1].startswith('verif-hook')]
  checks = []
  na = []
  for p in props:
    pid = p['id']
    if pid in CHECKS:
      eng, tech, text, note, ref = CHECKS[pid]
      checks.append({
          'property_id': pid,
          'quick_cmd': f'./check {pid} --tier quick',
          'thorough_cmd': f'./check {pid} --tier thorough',
          'evidence_file': f'/verif/evidence/{pid}.json',
          'replay_cmd_template': f'./check {pid} --replay {{path}}',
          'engine': eng,
          'level_claimed': {'category': 'model_checking',
                            'text': text + EXTRA.get(pid, ''),
                            'design_ref': f'DESIGN.md section {ref}'},
          'level_note': note,
          'technique': tech,
      })
    else:
      na.append({'property_id': pid,
                 'reason': NOT_APPLICABLE.get(
                     pid, 'check not built yet in this commit (planned: see '
                     'DESIGN.md section 7); not claimed until it runs clean')})
  m = {
      'version': 1,
      'setup_cmd': './setup.sh',
      'hooks': {
          'guard': 'AI_EDGE_QUANTIZER_VERIF',
          'enable': ('environment variable AI_EDGE_QUANTIZER_VERIF=1 (set by '
                     './check); the library is imported from /repo\'s working '
                     'tree via PYTHONPATH, nothing is built'),
          # same form as BASELINE.json's cmd (the <file> placeholder is the
          # harness's), with the guard variables removed from the environment;
          # tools/baseline.sh runs it and compares with BASELINE.json itself
          'baseline_off_cmd': (
              'cd /repo && env -u AI_EDGE_QUANTIZER_VERIF '
              '-u AI_EDGE_QUANTIZER_VERIF_LARGE_MODEL_THRESHOLD '
              '/venv/bin/python -m pytest -ra -q -p no:cacheprovider '
              '--timeout=900 --continue-on-collection-errors '
              '--junitxml=<file>'),
          'source_commits': hook_commits,
          'add_only': True,
      },
      'engines': [
          {'name': E1, 'path': 'vf/pool.py, vf/enum_graphs.py, vf/universe.py, vf/oracles/common.py',
           'serves_properties': ['C01', 'C02', 'C03', 'C04', 'C05', 'C06',
                                 'C07', 'C08', 'C10', 'C15', 'C16', 'C18',
                                 'C19'],
           'kind_free_text': 'explicit-state BFS over graph-construction '
                             'histories; every state x recipe x data runs the '
                             'real Quantizer API in forked workers'},
          {'name': E2, 'path': 'vf/explore_history.py',
           'serves_properties': ['C09', 'C11', 'C12', 'C14'],
           'kind_free_text': 'explicit-state BFS over API call histories with a '
                             'lock-step reference model and revisit agreement'},
          {'name': E3, 'path': 'vf/sweep.py',
           'serves_properties': ['C13', 'C17'],
           'kind_free_text': 'exhaustive enumeration of a finite product domain'},
      ],
      'checks': checks,
      'not_applicable': na,
      'notes': ('All checks: cd /verif && ./check Cxx --tier quick|thorough. '
                'Baseline with the guard off, compared against BASELINE.json: '
                '/verif/tools/baseline.sh /repo. '
                'VERIF_SEED selects one of 4 precomputed value pools; the '
                'enumerated structures never depend on it. Known findings: '
                'known_findings.json. fix: commits in /repo: '
                + '; '.join(c for c in commits if ' fix:' in c)),
  }
  with open(os.path.join(HERE, 'MANIFEST.json'), 'w') as fh:
    json.dump(m, fh, indent=1)
  print('checks', len(checks), 'not_applicable', len(na))


if __name__ == '__main__':
  main()
