#!/usr/bin/env python3
"""For every fix: commit of /repo: revert it in a scratch worktree and run the
check(s) that found the defect; a fixed defect that returns must be reported."""
import json, os, shutil, subprocess, sys, time
VERIF = os.path.dirname(os.path.dirname(os.path.abspath(__file__)))
FIXES = [
    ('5346ae9', ['C01']), ('be8937b', ['C01', 'C02']), ('03df398', ['C01']),
    ('3fb8203', ['C08']), ('ae54699+4f6f188', ['C08']), ('f94eba8', ['C02']),
    ('dcfd9ce', ['C17']), ('aec99ae', ['C05']), ('4e62abb', ['C12']),
    ('b3cd51c', ['C12']), ('13471b1', ['C14']), ('ea14636', ['C13', 'C10']),
    ('75bd50f', ['C10']), ('083f561', ['C10']), ('4f6f188', ['C15']),
    ('416fe60', ['C18']),
]


def sh(cmd, **kw):
  return subprocess.run(cmd, shell=True, capture_output=True, text=True, **kw)


def main():
  only = sys.argv[1:]
  rows = []
  for commits, checks in FIXES:
    if only and commits not in only:
      continue
    scratch = '/tmp/revert_' + commits.replace('+', '_')
    sh(f'git -C /repo worktree remove --force {scratch}')
    assert sh(f'git -C /repo worktree add -q --detach {scratch} HEAD').returncode == 0
    try:
      ok = True
      for c in reversed(commits.split('+')):
        r = sh(f'git -C /repo show {c} -- ai_edge_quantizer | git -C {scratch} apply -R --whitespace=nowarn')
        if r.returncode != 0:
          r = sh(f'git -C /repo show {c} -- ai_edge_quantizer | git -C {scratch} apply -R -3 --whitespace=nowarn')
        ok = ok and r.returncode == 0
      if not ok:
        rows.append((commits, 'revert does not apply', ''))
        continue
      b = sh(f'{VERIF}/tools/baseline.sh {scratch}')
      res = {}
      for c in checks:
        e = dict(os.environ, VERIF_REPO=scratch, VERIF_OUT_DIR='/tmp/revert_out')
        rc = sh(f'{VERIF}/check {c} --tier quick', env=e, cwd=VERIF)
        viol = [l for l in rc.stdout.splitlines() if l.startswith('VIOLATION')]
        kinds = sorted(set(l.strip().split(':')[0] for l in rc.stdout.splitlines()
                           if l.startswith('  ') and ':' in l))[:4]
        res[c] = (rc.returncode, len(viol), kinds)
        shutil.rmtree('/tmp/revert_out', ignore_errors=True)
      rows.append((commits, 'baseline ok' if b.returncode == 0 else 'baseline differs', res))
      print(commits, rows[-1][1], res, flush=True)
    finally:
      sh(f'git -C /repo worktree remove --force {scratch}')
      shutil.rmtree(scratch, ignore_errors=True)
  with open(os.path.join(VERIF, 'seeded', 'REVERTS.md'), 'a') as fh:
    for commits, st, res in rows:
      fh.write(f'| {commits} | {st} | ' + ', '.join(
          f'{c}: exit {v[0]}, {v[1]} violations ({"/".join(v[2])})'
          for c, v in (res.items() if res else [])) + ' |\n')


if __name__ == '__main__':
  main()
