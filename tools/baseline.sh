#!/bin/bash
# Runs the repository's pinned baseline suite (guard OFF) and compares the set
# of passing tests with /root/.vp/BASELINE.json's stable_pass list.
# usage: tools/baseline.sh [repo_dir]
REPO="${1:-/repo}"
OUT=$(mktemp /tmp/baseline.XXXXXX.xml)
cd "$REPO" && env -u AI_EDGE_QUANTIZER_VERIF -u AI_EDGE_QUANTIZER_VERIF_LARGE_MODEL_THRESHOLD \
  /venv/bin/python -m pytest -ra -q -p no:cacheprovider --timeout=900 \
  --continue-on-collection-errors --junitxml="$OUT" > /tmp/baseline.log 2>&1
tail -3 /tmp/baseline.log
python3 - "$OUT" <<'PY'
import json, sys, xml.etree.ElementTree as ET
want = set(json.load(open('/root/.vp/BASELINE.json'))['stable_pass'])
got = set()
for tc in ET.parse(sys.argv[1]).getroot().iter('testcase'):
    bad = any(c.tag in ('failure', 'error', 'skipped') for c in tc)
    if not bad:
        got.add(f"{tc.get('classname')}::{tc.get('name')}")
missing = sorted(want - got)
print(f'baseline: {len(want & got)}/{len(want)} stable tests pass')
for m in missing[:20]:
    print('  NOT PASSING:', m)
sys.exit(1 if missing else 0)
PY
rc=$?
rm -f "$OUT"
exit $rc
