#!/bin/bash
# Runs every quick (or thorough) check; prints one line per check.
cd "$(dirname "$0")/.."
TIER="${1:-quick}"
for i in 01 02 03 04 05 06 07 08 09 10 11 12 13 14 15 16 17 18 19; do
  out=$(./check C$i --tier $TIER 2>&1); rc=$?
  echo "exit=$rc $(echo "$out" | grep -E "^C$i " | tail -1) $(echo "$out" | grep -c '^VIOLATION') violations $(echo "$out" | grep -c '^KNOWN-FINDING') KF"
done
