#!/bin/bash
# Re-runs, for every kept seed, the checks that reported it (or its own
# property's check) against the current /verif and /repo HEAD.
# usage: tools/recheck_all_seeds.sh [file with lines "<seed> ..." to skip]
cd "$(dirname "$0")/.."
SKIP="${1:-/dev/null}"
for d in seeded/*/; do
  n=$(basename $d)
  [ -f $d/meta.json ] || continue
  grep -q "^$n " "$SKIP" && continue
  checks=$(python3 -c "
import json,sys
m=json.load(open('$d/meta.json'))
det=m.get('detected_by') or [m['breaks_property']]
print(' '.join(det[:2]))")
  python3 tools/seed_eval.py --recheck $n $checks 2>&1 | tail -1
done
