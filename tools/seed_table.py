#!/usr/bin/env python3
"""Writes /verif/seeded/RESULTS.md from the meta.json files."""
import glob, json, os
V = os.path.dirname(os.path.dirname(os.path.abspath(__file__)))
rows = []
for f in sorted(glob.glob(os.path.join(V, 'seeded', '*', 'meta.json'))):
    m = json.load(open(f))
    det = ', '.join(f"{c} ({v['violations']}: {'/'.join(v['kinds'][:3])})" for c, v in m.get('checks', {}).items() if v['exit'] == 1 and v['violations'])
    miss = ', '.join(c for c, v in m.get('checks', {}).items() if not (v['exit'] == 1 and v['violations']))
    first = (m.get('needs_to_manifest') or '').strip().splitlines()
    title = first[0].lstrip('# ').strip() if first else ''
    rows.append(f"| {m['name']} | {m['breaks_property']} | {title[:110]} | {det or '—'} | {miss or '—'} |")
with open(os.path.join(V, 'seeded', 'RESULTS.md'), 'w') as fh:
    fh.write('# Seeded property-breaking changes (written by independent sub-agents)\n\n'
             'Each was confirmed in a scratch worktree: baseline 519/519 with the change, demo fails with it and passes without it.\n'
             'Then the listed quick checks ran with VERIF_REPO pointing at the patched scratch tree.\n\n'
             '| seed | property | change | detected by (violations: kinds) | ran but silent |\n|---|---|---|---|---|\n' + '\n'.join(rows) + '\n')
print(len(rows), 'seeds')
