#!/usr/bin/env python3
"""Confirm a seeded property-breaking change and run checks against it.

usage: tools/seed_eval.py <seed_src_dir> <name> <property> [check ids...]

  1. scratch git worktree of /repo HEAD under /tmp, patch applied there
  2. baseline suite in the scratch tree must keep 519/519 stable tests
  3. demo.py must FAIL (exit != 0) with the patch and PASS (exit 0) without
  4. each listed check runs with VERIF_REPO=<scratch> (quick tier); detection =
     exit 1 with a VIOLATION line
  5. scratch worktree removed; /verif/seeded/<name>/{patch.diff,demo.py,notes.md,
     meta.json} kept only if 1-3 hold.
"""
import json
import os
import shutil
import subprocess
import sys
import time

VERIF = os.path.dirname(os.path.dirname(os.path.abspath(__file__)))


def sh(cmd, **kw):
  return subprocess.run(cmd, shell=True, capture_output=True, text=True, **kw)


def recheck(name, checks):
  """Re-run checks against an already confirmed seed (patch from seeded/)."""
  dst = os.path.join(VERIF, 'seeded', name)
  meta = json.load(open(os.path.join(dst, 'meta.json')))
  scratch = f'/tmp/seedrun_{name}'
  sh(f'git -C /repo worktree remove --force {scratch}')
  r = sh(f'git -C /repo worktree add -q --detach {scratch} HEAD')
  assert r.returncode == 0, r.stderr
  try:
    r = sh(f'git -C {scratch} apply --whitespace=nowarn {dst}/patch.diff')
    if r.returncode != 0:
      r = sh(f'git -C {scratch} apply -3 --whitespace=nowarn {dst}/patch.diff')
    if r.returncode != 0:
      print(name, 'PATCH DOES NOT APPLY')
      return 2
    for c in checks or list(meta.get('checks', {})):
      t0 = time.time()
      e = dict(os.environ, VERIF_REPO=scratch, VERIF_OUT_DIR=f'/tmp/seedout_{name}')
      rc = sh(f'{VERIF}/check {c} --tier quick', env=e, cwd=VERIF)
      viol = [l for l in rc.stdout.splitlines() if l.startswith('VIOLATION')]
      kinds = sorted(set(l.strip().split(':')[0] for l in rc.stdout.splitlines()
                         if l.startswith('  ') and ':' in l))[:8]
      meta.setdefault('checks', {})[c] = {
          'exit': rc.returncode, 'violations': len(viol), 'kinds': kinds,
          'wall_s': round(time.time() - t0, 1),
          'tail': rc.stdout.strip().splitlines()[-1:]}
      shutil.rmtree(f'/tmp/seedout_{name}', ignore_errors=True)
    meta['detected_by'] = [c for c, v in meta['checks'].items()
                           if v['exit'] == 1 and v['violations'] > 0]
    meta['rechecked_at_repo_head'] = sh('git -C /repo rev-parse --short HEAD').stdout.strip()
    meta['rechecked_at_verif_head'] = sh(f'git -C {VERIF} rev-parse --short HEAD').stdout.strip()
    json.dump(meta, open(os.path.join(dst, 'meta.json'), 'w'), indent=1)
    print(name, 'detected_by', meta['detected_by'],
          {c: (v['exit'], v['violations']) for c, v in meta['checks'].items()})
  finally:
    sh(f'git -C /repo worktree remove --force {scratch}')
    shutil.rmtree(scratch, ignore_errors=True)
  return 0


def main():
  if sys.argv[1] == '--recheck':
    return recheck(sys.argv[2], sys.argv[3:])
  src, name, prop = sys.argv[1:4]
  checks = sys.argv[4:] or [prop]
  scratch = f'/tmp/seedrun_{name}'
  sh(f'git -C /repo worktree remove --force {scratch}')
  r = sh(f'git -C /repo worktree add -q --detach {scratch} HEAD')
  assert r.returncode == 0, r.stderr
  meta = {'name': name, 'breaks_property': prop, 'source': src,
          'repo_head': sh('git -C /repo rev-parse --short HEAD').stdout.strip()}
  try:
    patch = os.path.join(src, 'patch.diff')
    demo = os.path.join(src, 'demo.py')
    env = dict(os.environ, PYTHONPATH=scratch, TF_CPP_MIN_LOG_LEVEL='3')
    env.pop('AI_EDGE_QUANTIZER_VERIF', None)
    # demo on the clean tree
    r0 = sh(f'/venv/bin/python -W ignore {demo}', cwd=scratch, env=env)
    meta['demo_clean_exit'] = r0.returncode
    r = sh(f'git -C {scratch} apply --whitespace=nowarn {patch}')
    if r.returncode != 0:
      r = sh(f'git -C {scratch} apply -3 --whitespace=nowarn {patch}')
    meta['patch_applies'] = r.returncode == 0
    if r.returncode != 0:
      meta['error'] = r.stderr[-500:]
      print(json.dumps(meta, indent=1))
      return 2
    b = sh(f'{VERIF}/tools/baseline.sh {scratch}')
    meta['baseline'] = b.stdout.strip().splitlines()[-1] if b.stdout else ''
    meta['baseline_ok'] = b.returncode == 0
    r1 = sh(f'/venv/bin/python -W ignore {demo}', cwd=scratch, env=env)
    meta['demo_patched_exit'] = r1.returncode
    meta['demo_patched_tail'] = (r1.stdout.strip().splitlines() or [''])[-1][:300]
    meta['confirmed'] = bool(meta['baseline_ok'] and r0.returncode == 0 and
                             r1.returncode != 0)
    meta['checks'] = {}
    for c in checks:
      t0 = time.time()
      e = dict(os.environ, VERIF_REPO=scratch,
               VERIF_OUT_DIR=f'/tmp/seedout_{name}')
      rc = sh(f'{VERIF}/check {c} --tier quick', env=e, cwd=VERIF)
      viol = [l for l in rc.stdout.splitlines() if l.startswith('VIOLATION')]
      kinds = sorted(set(l.strip().split(':')[0] for l in rc.stdout.splitlines()
                         if l.startswith('  ') and ':' in l))[:8]
      meta['checks'][c] = {'exit': rc.returncode, 'violations': len(viol),
                           'kinds': kinds, 'wall_s': round(time.time() - t0, 1),
                           'tail': rc.stdout.strip().splitlines()[-1:]}
      # evidence/replays of a mutant run go to a scratch dir, never to /verif
      shutil.rmtree(f'/tmp/seedout_{name}', ignore_errors=True)
      if (os.environ.get('SEED_STOP_FIRST') and rc.returncode == 1 and viol):
        break   # own check first, neighbours only while undetected
    meta['detected_by'] = [c for c, v in meta['checks'].items()
                           if v['exit'] == 1 and v['violations'] > 0]
  finally:
    sh(f'git -C /repo worktree remove --force {scratch}')
    shutil.rmtree(scratch, ignore_errors=True)
  if meta.get('confirmed'):
    dst = os.path.join(VERIF, 'seeded', name)
    os.makedirs(dst, exist_ok=True)
    for f in sorted(os.listdir(src)):     # patch.diff, demo.py, notes.md, helpers
      if os.path.isfile(os.path.join(src, f)) and not f.endswith('.pyc'):
        shutil.copy(os.path.join(src, f), os.path.join(dst, f))
    notes = os.path.join(src, 'notes.md')
    meta['needs_to_manifest'] = open(notes).read()[:1500] if os.path.exists(notes) else ''
    meta['what_was_run'] = ('scratch worktree of /repo HEAD + patch; '
                            'tools/baseline.sh (519 stable tests); demo.py with '
                            'and without the patch; ./check <id> --tier quick '
                            'with VERIF_REPO=<scratch>')
    with open(os.path.join(dst, 'meta.json'), 'w') as fh:
      json.dump(meta, fh, indent=1)
  print(json.dumps({k: v for k, v in meta.items()
                    if k not in ('needs_to_manifest',)}, indent=1))
  return 0


if __name__ == '__main__':
  sys.exit(main())
