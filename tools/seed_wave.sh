#!/bin/bash
# usage: tools/seed_wave.sh <wave tag, e.g. w4> <seeds per property>
# Evaluates /tmp/<tag>_Cxx/_seed/<k> with the property's own check first and
# its neighbours while undetected (SEED_STOP_FIRST).
cd "$(dirname "$0")/.."
TAG=$1; N=${2:-3}; ORDER=${3:-fwd}
IDS="01 02 03 04 05 06 07 08 09 10 11 12 13 14 15 16 17 18 19"
[ "$ORDER" = rev ] && IDS="19 18 17 16 15 14 13 12 11 10 09 08 07 06 05 04 03 02 01"
# two streams (fwd + rev) may run side by side: serial phases (baseline suite,
# demos, imports) of one overlap the parallel phase of the other
declare -A REL=(
 [C01]="C01 C02 C03 C08" [C02]="C02 C01 C08" [C03]="C03 C01 C15 C11"
 [C04]="C04 C07 C17 C05 C09" [C05]="C05 C04 C06" [C06]="C06 C05 C07 C15 C01"
 [C07]="C07 C04 C06" [C08]="C08 C01 C03" [C09]="C09 C04 C10"
 [C10]="C10 C09" [C11]="C11 C12 C14 C13" [C12]="C12 C11 C14"
 [C13]="C13 C11" [C14]="C14 C09 C12 C11" [C15]="C15 C19 C08"
 [C16]="C16" [C17]="C17 C04 C05 C18" [C18]="C18" [C19]="C19 C15 C09 C10")
for i in $IDS; do
  for k in $(seq 1 $N); do
    src=/tmp/${TAG}_C$i/_seed/$k
    [ -f $src/patch.diff ] || { echo "C${i}_${TAG}s$k MISSING"; continue; }
    [ -f seeded/C${i}_${TAG}s$k/meta.json ] && { echo "C${i}_${TAG}s$k already evaluated"; continue; }
    mkdir /tmp/seedlock_C${i}_${TAG}s$k 2>/dev/null || continue   # other stream has it
    SEED_STOP_FIRST=1 python3 tools/seed_eval.py $src C${i}_${TAG}s$k C$i ${REL[C$i]} > /tmp/seedeval_C${i}_${TAG}s$k.json 2>&1
    python3 - <<PY
import json,re
t=open('/tmp/seedeval_C${i}_${TAG}s$k.json').read()
try:
  m=json.loads(t[t.index('{'):])
  print('C${i}_${TAG}s$k', 'confirmed' if m.get('confirmed') else 'NOT-CONFIRMED', 'detected_by', m.get('detected_by'), {c:(v['exit'],v['violations']) for c,v in m.get('checks',{}).items()})
except Exception as e:
  print('C${i}_${TAG}s$k', 'EVAL-ERROR', t[-300:])
PY
  done
done
