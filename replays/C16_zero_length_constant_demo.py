import os, numpy as np
from vf import ir as irm, lite
from ai_edge_litert import schema_py_generated as s
from ai_edge_quantizer import quantizer
from vf import modes as md
ir = irm.single([irm.op('FULLY_CONNECTED','bias',[0])]); ir['zlen']=True
b = irm.build(ir)
r=[md.rule('.*','*','WO8c')]
small = bytes(quantizer.Quantizer(b.model, r).quantize().quantized_model)
os.environ['AI_EDGE_QUANTIZER_VERIF_LARGE_MODEL_THRESHOLD']='-1'
large = bytes(quantizer.Quantizer(b.model, r).quantize().quantized_model)
S = s.ModelT.InitFromPackedBuf(small,0); L = s.ModelT.InitFromPackedBuf(large,0)
bad=0
for i,(sb,lb) in enumerate(zip(S.buffers,L.buffers)):
    if sb.data is not None and len(sb.data):
        got = large[lb.offset:lb.offset+lb.size]
        ok = got == sb.data.tobytes()
        print('buffer',i,'offset',lb.offset,'size',lb.size,'file',len(large),'bytes equal:',ok); bad += not ok
d = b.input_data(0,'mix')
o1,_ = lite.run_signature(small,d,b.keys[0])
try:
    o2,_ = lite.run_signature(large,d,b.keys[0]); print('outputs equal', all(np.array_equal(o1[k],o2[k]) for k in o1))
except Exception as e: print('large form:', type(e).__name__, str(e)[:150])
print('FAIL' if bad else 'PASS')
