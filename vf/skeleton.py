"""Skeleton extraction: contract inserted QUANTIZE/DEQUANTIZE ops and compare
the result with the input graph (C02); also used by C03/C04/C19 to map
operators and tensors of the output model back to the original ones."""
from vf import fbparse

Q = fbparse.BO.QUANTIZE
DQ = fbparse.BO.DEQUANTIZE
F32 = fbparse.T.FLOAT32


class SubMap:
  """Correspondence between one float subgraph and its quantized version."""

  def __init__(self):
    self.alias = {}     # inserted tensor -> its source tensor (one hop)
    self.opmap = {}     # original op index -> output op index
    self.inserted = []  # output ops that are Q/DQ
    self.problems = []  # (kind, detail)

  def root(self, t):
    seen = set()
    while t in self.alias and t not in seen:
      seen.add(t)
      t = self.alias[t]
    return t


def extract(fm, qm, si):
  """Compare subgraph si of float model fm and output model qm."""
  m = SubMap()
  P = m.problems
  fs, qs = fm.subs[si], qm.subs[si]
  n = len(fs.tensors)
  if len(qs.tensors) < n:
    P.append(('tensor_dropped', f'{n} original tensors, {len(qs.tensors)} left'))
    return m
  for i in range(n):
    a, b = fs.tensors[i], qs.tensors[i]
    if a.name != b.name:
      P.append(('tensor_renamed', f'tensor {i}: {a.name!r} -> {b.name!r}'))
    if a.shape != b.shape:
      P.append(('tensor_reshaped', f'tensor {i} {a.name}: {a.shape} -> {b.shape}'))
  kept = []
  for o in qs.ops:
    if o.code in (Q, DQ):
      m.inserted.append(o.index)
      if len(o.inputs) != 1 or len(o.outputs) != 1:
        P.append(('inserted_op_arity', f'op {o.index}'))
        continue
      if o.outputs[0] < n:
        P.append(('inserted_op_writes_original',
                  f'op {o.index} writes original tensor {o.outputs[0]}'))
      m.alias[o.outputs[0]] = o.inputs[0]
    else:
      kept.append(o)
  if len(kept) != len(fs.ops):
    P.append(('op_count', f'{len(fs.ops)} original operators, {len(kept)} '
              'non-Q/DQ operators in the output'))
    return m
  for k, (fo, qo) in enumerate(zip(fs.ops, kept)):
    m.opmap[k] = qo.index
    if fo.code != qo.code:
      P.append(('opcode_changed', f'op {k}: {fbparse.BN.get(fo.code)} -> '
                f'{fbparse.BN.get(qo.code)}'))
    if fo.opt_type != qo.opt_type or fo.opt_bytes != qo.opt_bytes:
      P.append(('options_changed', f'op {k} {fbparse.BN.get(fo.code)}'))
    qi = [m.root(i) if i != -1 else -1 for i in qo.inputs]
    if fo.inputs != qi:
      P.append(('operand_rewired', f'op {k} {fbparse.BN.get(fo.code)}: inputs '
                f'{fo.inputs} -> {qo.inputs} (roots {qi})'))
    if fo.outputs != qo.outputs:
      P.append(('result_rewired', f'op {k} {fbparse.BN.get(fo.code)}: outputs '
                f'{fo.outputs} -> {qo.outputs}'))
  # I/O contract
  if len(fs.inputs) != len(qs.inputs):
    P.append(('io_count', f'inputs {fs.inputs} -> {qs.inputs}'))
  else:
    for k, (a, b) in enumerate(zip(fs.inputs, qs.inputs)):
      if m.root(b) != a:
        P.append(('input_changed', f'input {k}: tensor {a} -> {b}'))
      elif 0 <= b < len(qs.tensors):
        if qs.tensors[b].name != fs.tensors[a].name:
          P.append(('input_renamed', f'input {k}: {fs.tensors[a].name!r} -> '
                    f'{qs.tensors[b].name!r}'))
        if qs.tensors[b].shape != fs.tensors[a].shape:
          P.append(('io_reshaped', f'input {k}'))
  if len(fs.outputs) != len(qs.outputs):
    P.append(('io_count', f'outputs {fs.outputs} -> {qs.outputs}'))
  else:
    for k, (a, b) in enumerate(zip(fs.outputs, qs.outputs)):
      if not (0 <= b < len(qs.tensors)):
        P.append(('output_changed', f'output {k}: tensor {a} -> {b}'))
        continue
      if m.root(b) != a:
        P.append(('output_changed', f'output {k}: tensor {a} '
                  f'({fs.tensors[a].name}) -> {b} ({qs.tensors[b].name}, root '
                  f'{m.root(b)})'))
        continue
      if qs.tensors[b].name != fs.tensors[a].name:
        P.append(('output_renamed', f'output {k}: {fs.tensors[a].name!r} -> '
                  f'{qs.tensors[b].name!r}'))
      if qs.tensors[b].shape != fs.tensors[a].shape:
        P.append(('io_reshaped', f'output {k}'))
  return m


def signatures(fm, qm):
  """Signature contract: keys, argument names, and tensor indices equal to the
  subgraph's own input/output entries at the same position."""
  P = []
  if len(fm.sigs) != len(qm.sigs):
    P.append(('signature_count', f'{len(fm.sigs)} -> {len(qm.sigs)}'))
    return P
  for a, b in zip(fm.sigs, qm.sigs):
    if a['key'] != b['key'] or a['sub'] != b['sub']:
      P.append(('signature_key', f"{a['key']}/{a['sub']} -> {b['key']}/{b['sub']}"))
      continue
    fs, qs = fm.subs[a['sub']], qm.subs[b['sub']]
    for side, fio, qio in (('inputs', fs.inputs, qs.inputs),
                           ('outputs', fs.outputs, qs.outputs)):
      if [n for n, _ in a[side]] != [n for n, _ in b[side]]:
        P.append(('signature_args', f"{a['key']} {side} names changed"))
        continue
      for (name, ft), (_, qt) in zip(a[side], b[side]):
        # which subgraph entry did the float signature entry denote?
        pos = [k for k, t in enumerate(fio) if t == ft]
        if not pos:
          continue
        if len(qio) != len(fio) or qt not in [qio[k] for k in pos]:
          P.append(('signature_stale',
                    f"{a['key']} {side} {name}: tensor {qt}, subgraph "
                    f"{side} entry is {[qio[k] for k in pos if k < len(qio)]}"))
  return P
