"""R-mode: operand dtypes each mode requires (from the TFLite quantization
spec and the README coverage table; independent of the library)."""
from vf import fbparse, ir as irm, modes

T = fbparse.T
ACT = {8: T.INT8, 16: T.INT16}
WT = {4: T.INT4, 8: T.INT8}


def expected_operand_dtype(role, optype, mode, is_const, orig_type):
  """dtype the operand must have as seen by the operator in the output."""
  k = modes.kind(mode)
  if orig_type != T.FLOAT32 or role == 'I' or k == 'NQ':
    return orig_type
  if k == 'SRQ':
    ab = modes.act_bits(mode)
    if role == 'B':
      return T.INT64 if ab == 16 else T.INT32
    if is_const and optype in irm.WEIGHT_OPS:
      return WT[modes.wcfg(mode)['num_bits']]
    return ACT[ab]
  if k == 'DRQ':
    if role == 'W' and is_const:
      return WT[modes.wcfg(mode)['num_bits']]
    return T.FLOAT32
  return T.FLOAT32   # WO / FP16: float everywhere, weight via DEQUANTIZE


def expected_result_dtype(mode, orig_type):
  if orig_type != T.FLOAT32:
    return orig_type
  if modes.kind(mode) == 'SRQ':
    return ACT[modes.act_bits(mode)]
  return T.FLOAT32


def wo_source_dtype(mode):
  """dtype of the constant feeding the DEQUANTIZE of a WO/FP16 weight."""
  if modes.kind(mode) == 'FP16':
    return T.FLOAT16
  return WT[modes.wcfg(mode)['num_bits']]
