"""R-recipe: reference model of recipe state and rule resolution.

Ordered list of (regex, [rules]).  add(): '*' resets the regex's list; a rule
for an operator already present under the same regex replaces it in place; a
new regex is appended (a regex keeps its first-insertion position).
resolve(): scan regexes in order and rules in order; the last *applicable*
rule wins; none => no-quantize.  Whether a (algorithm, op, config) triple
passes the support check is an input (`supported`), see DESIGN.md section 5.
"""
import copy
import json
import re

NOQ = 'no_quantize'


def canon_cfg(c):
  return json.dumps(c, sort_keys=True) if c is not None else None


class RefRecipe:
  def __init__(self):
    self.scopes = []  # [regex, [rule, ...]]; rule = dict(regex, operation, algorithm_key, op_config)

  def clone(self):
    r = RefRecipe()
    r.scopes = copy.deepcopy(self.scopes)
    return r

  def add(self, regex, op, alg, cfg):
    rule = {'regex': regex, 'operation': op, 'algorithm_key': alg,
            'op_config': copy.deepcopy(cfg)}
    for sc in self.scopes:
      if sc[0] == regex:
        if op == '*':
          sc[1] = [rule]
          return
        for i, old in enumerate(sc[1]):
          if old['operation'] == op:
            sc[1][i] = rule
            return
        sc[1].append(rule)
        return
    self.scopes.append([regex, [rule]])

  def load(self, recipe):
    self.scopes = []
    for r in recipe:
      self.add(r['regex'], r['operation'], r['algorithm_key'],
               r.get('op_config') if r['algorithm_key'] != NOQ else None)

  def rules(self):
    return [r for _, rs in self.scopes for r in rs]

  def resolve(self, op, scope, supported):
    """supported(alg, op, cfg) -> bool.  Returns (alg, cfg) ; cfg None = default."""
    res = (NOQ, None)
    for regex, rs in self.scopes:
      if not re.search(regex, scope):
        continue
      for r in rs:
        if r['operation'] != '*' and r['operation'] != op:
          continue
        if r['algorithm_key'] != NOQ and not supported(
            r['algorithm_key'], op, r['op_config']):
          continue
        res = (r['algorithm_key'], r['op_config'])
    return res
