"""Graph IR and IR -> float TFLite flatbuffer builder.

Nothing from the library under test is used here: models are assembled with
ai_edge_litert's generated object API and flatbuffers.Builder.

IR (JSON-serialisable, so it can be stored in replay files):

  {'subgraphs': [ {'ops': [op, ...], 'exports': [handle, ...],
                   'prefix': '', 'key': 'serving_default'} , ...],
   'pool': 0, 'names': 'plain', 'x': 'S4'}

  op = {'t': <TFL op name>, 'v': <variant>, 'in': [handle, ...],
        'wk': <weight kind>, 'share': [mode, op_index] (optional)}

Handles: 0 is the float graph input `x`; every operator output gets the next
handle.  EMBEDDING_LOOKUP reads the implicit int32 graph input `ids`.
Graph outputs are the sink handles followed by the exported handles.
"""
import numpy as np
import flatbuffers
from ai_edge_litert import schema_py_generated as s

BO = s.BuiltinOperator
OPT = s.BuiltinOptions
T = s.TensorType
F32, I32 = T.FLOAT32, T.INT32

BN = {v: k for k, v in vars(BO).items() if not k.startswith('_')}
TN = {v: k for k, v in vars(T).items() if not k.startswith('_')}

# Library operator name -> builtin code (written from the TFLite schema, not
# read from the library).
OPCODE = {
    'FULLY_CONNECTED': BO.FULLY_CONNECTED, 'BATCH_MATMUL': BO.BATCH_MATMUL,
    'CONV_2D': BO.CONV_2D, 'DEPTHWISE_CONV_2D': BO.DEPTHWISE_CONV_2D,
    'CONV_2D_TRANSPOSE': BO.TRANSPOSE_CONV,
    'EMBEDDING_LOOKUP': BO.EMBEDDING_LOOKUP, 'SOFTMAX': BO.SOFTMAX,
    'AVERAGE_POOL_2D': BO.AVERAGE_POOL_2D, 'RESHAPE': BO.RESHAPE,
    'TANH': BO.TANH, 'TRANSPOSE': BO.TRANSPOSE, 'GELU': BO.GELU,
    'ADD': BO.ADD, 'SUB': BO.SUB, 'MUL': BO.MUL, 'MEAN': BO.MEAN,
    'RSQRT': BO.RSQRT, 'CONCATENATION': BO.CONCATENATION,
    'STRIDED_SLICE': BO.STRIDED_SLICE, 'SPLIT': BO.SPLIT,
    'LOGISTIC': BO.LOGISTIC,
    # unsupported float operators
    'ABS': BO.ABS, 'MAXIMUM': BO.MAXIMUM, 'RELU': BO.RELU,
}
SUPPORTED = [k for k in OPCODE if k not in ('ABS', 'MAXIMUM', 'RELU')]
UNSUPPORTED = ['ABS', 'MAXIMUM', 'RELU']
WEIGHT_OPS = ('FULLY_CONNECTED', 'CONV_2D', 'DEPTHWISE_CONV_2D',
              'CONV_2D_TRANSPOSE', 'BATCH_MATMUL', 'EMBEDDING_LOOKUP')

S4 = [1, 2, 2, 4]
IDS = [0, 2, 3, 1]

# (type, variant, number of activation operands)
VARIANTS = {
    'FULLY_CONNECTED': [('bias', 1), ('nobias', 1), ('bias_relu', 1)],
    'CONV_2D': [('1x1', 1), ('2x2same', 1)],
    'DEPTHWISE_CONV_2D': [('m1', 1)],
    'CONV_2D_TRANSPOSE': [('bias', 1), ('nobias', 1)],
    'BATCH_MATMUL': [('const', 1), ('const_adjy', 1), ('rt', 2)],
    'EMBEDDING_LOOKUP': [('w4', 0), ('w3', 0), ('v5', 0)],
    'SOFTMAX': [('', 1)], 'TANH': [('', 1)], 'LOGISTIC': [('', 1)],
    'GELU': [('', 1)], 'RSQRT': [('', 1)],
    'AVERAGE_POOL_2D': [('1x1', 1), ('2x2same', 1)],
    'RESHAPE': [('same', 1), ('flat', 1)],
    'TRANSPOSE': [('', 1)],
    'ADD': [('tt', 2), ('tc', 1)], 'SUB': [('tt', 2), ('tc', 1)],
    'MUL': [('tt', 2), ('tc', 1)],
    'MEAN': [('keep', 1)],
    'CONCATENATION': [('ax0', 2), ('last', 2), ('tc', 1)],
    'STRIDED_SLICE': [('full', 1), ('crop', 1)],
    'SPLIT': [('last', 1)],
    'ABS': [('', 1)], 'RELU': [('', 1)],
    'MAXIMUM': [('tt', 2), ('tc', 1)],
}
# Extended attribute variants (strides, padding, fused activations, transposed
# operands, scalar constants ...): used at depth 1 everywhere and at depth 2 in
# the thorough tiers ('allx').
VARIANTS_X = {
    'FULLY_CONNECTED': [('nokeepdims', 1)],
    'CONV_2D': [('2x2valid_relu6', 1), ('s2', 1), ('dil2', 1)],
    'DEPTHWISE_CONV_2D': [('m2', 1), ('k2s2', 1)],
    'CONV_2D_TRANSPOSE': [('s2', 1)],
    'BATCH_MATMUL': [('const_adjx', 1), ('const_b2', 1)],
    'AVERAGE_POOL_2D': [('2x2valid', 1), ('s2', 1)],
    'SOFTMAX': [('beta2', 1)],
    'MEAN': [('nokeep', 1), ('ax2', 1)],
    'ADD': [('ts', 1), ('s0', 1), ('bc', 1), ('tt_relu', 2)],
    'MUL': [('ts', 1), ('s0', 1), ('tc_relu6', 1)],
    'SUB': [('s0', 1), ('bc', 1)],
    'STRIDED_SLICE': [('stride2', 1)],
}
FIRST_VARIANT = {t: v[0] for t, v in VARIANTS.items()}


def variants_of(t, extended=False):
  return VARIANTS[t] + (VARIANTS_X.get(t, []) if extended else [])


def arity(t, v):
  return dict(variants_of(t, True))[v]
COMMUTATIVE_TT = ('ADD', 'MUL', 'MAXIMUM')


# ----------------------------------------------------------------------------
# value pools
# ----------------------------------------------------------------------------
WEIGHT_KINDS = ('rand', 'ramp', 'pos', 'neg', 'const', 'zero', 'tiny', 'big',
                'outlier', 'zero_channel', 'tie')


def const_values(kind, shape, key):
  """Deterministic constant of `shape`; key = (pool, op index, slot)."""
  n = int(np.prod(shape)) if len(shape) else 1
  r = np.random.default_rng([int(k) & 0xffffffff for k in key])
  base = r.uniform(-1, 1, size=n).astype(np.float32)
  if kind == 'rand':
    v = base
  elif kind == 'ramp':
    v = np.linspace(-0.9, 1.3, n, dtype=np.float32)
  elif kind == 'pos':
    v = np.abs(base) + np.float32(0.05)
  elif kind == 'neg':
    v = -np.abs(base) - np.float32(0.05)
  elif kind == 'const':
    v = np.full(n, 0.37, dtype=np.float32)
  elif kind == 'zero':
    v = np.zeros(n, dtype=np.float32)
  elif kind == 'tiny':
    v = (base * np.float32(1e-6)).astype(np.float32)
  elif kind == 'big':
    v = (base * np.float32(1e4)).astype(np.float32)
  elif kind == 'outlier':
    v = base.copy()
    v[0] *= 100
  elif kind == 'zero_channel':
    v = base.copy().reshape(shape) if len(shape) else base.copy()
    if len(shape) >= 1:
      idx = [slice(None)] * len(shape)
      idx[0] = 0
      v[tuple(idx)] = 0
      if len(shape) >= 2:
        idx = [slice(None)] * len(shape)
        idx[-1] = 0
        v[tuple(idx)] = 0
    v = v.reshape(-1)
  elif kind == 'tie':
    v = ((np.arange(n) % 255 - 127) / 127.0 + 0.5 / 127.0).astype(np.float32)
  else:
    raise KeyError(kind)
  return np.asarray(v, dtype=np.float32).reshape(shape)


INPUT_KINDS = ('mix', 'mix2', 'pos', 'neg', 'zero', 'tiny', 'big', 'alt')


def input_values(kind, shape):
  n = int(np.prod(shape))
  if kind == 'mix':
    v = np.linspace(-1.0, 2.0, n)
  elif kind == 'mix2':
    v = np.linspace(-0.93, 1.71, n)
  elif kind == 'pos':
    v = np.linspace(0.25, 1.75, n)
  elif kind == 'neg':
    v = np.linspace(-1.6, -0.2, n)
  elif kind == 'zero':
    v = np.zeros(n)
  elif kind == 'tiny':
    v = np.linspace(-1.0, 2.0, n) * 1e-6
  elif kind == 'big':
    v = np.linspace(-1.0, 2.0, n) * 1e4
  elif kind == 'alt':
    v = np.cos(np.arange(n) * 2.399963) * 1.3 + 0.21
  else:
    raise KeyError(kind)
  return v.astype(np.float32).reshape(shape)


# ----------------------------------------------------------------------------
# low-level flatbuffer assembly
# ----------------------------------------------------------------------------
class _G:
  """One model under construction."""

  def __init__(self):
    m = s.ModelT()
    m.version = 3
    m.description = b'verif'
    m.buffers = [s.BufferT()]  # buffer 0: empty sentinel
    m.operatorCodes = []
    m.subgraphs = []
    m.signatureDefs = []
    self.m = m
    self.sg = None
    self.const = {}  # (subgraph, tensor id) -> ndarray

  def subgraph(self, name):
    sg = s.SubGraphT()
    sg.name = name.encode()
    sg.tensors, sg.operators, sg.inputs, sg.outputs = [], [], [], []
    self.m.subgraphs.append(sg)
    self.sg = sg
    self.si = len(self.m.subgraphs) - 1

  def buf(self, data=None):
    b = s.BufferT()
    if data is not None:
      b.data = np.frombuffer(data.tobytes(), dtype=np.uint8)
    self.m.buffers.append(b)
    return len(self.m.buffers) - 1

  def tensor(self, name, shape, ttype=F32, data=None, buffer=None):
    t = s.TensorT()
    t.name = name.encode()
    t.shape = np.array(shape, dtype=np.int32)
    t.type = ttype
    t.buffer = self.buf(data) if buffer is None else buffer
    # converter normal form: every tensor carries an (empty) quantization table
    t.quantization = s.QuantizationParametersT()
    self.sg.tensors.append(t)
    tid = len(self.sg.tensors) - 1
    if data is not None:
      self.const[(self.si, tid)] = np.asarray(data)
    return tid

  def constant(self, name, arr, buffer=None):
    arr = np.asarray(arr)
    tt = F32 if arr.dtype == np.float32 else I32
    tid = self.tensor(name, list(arr.shape), tt, arr, buffer)
    self.const[(self.si, tid)] = arr
    return tid

  def shape(self, tid):
    return [int(i) for i in self.sg.tensors[tid].shape]

  def opcode(self, code):
    for i, oc in enumerate(self.m.operatorCodes):
      if oc.builtinCode == code:
        return i
    oc = s.OperatorCodeT()
    oc.builtinCode = code
    oc.deprecatedBuiltinCode = min(code, 127)
    oc.version = 1
    self.m.operatorCodes.append(oc)
    return len(self.m.operatorCodes) - 1

  def op(self, code, inputs, outputs, opt_type=0, opt=None):
    o = s.OperatorT()
    o.opcodeIndex = self.opcode(code)
    o.inputs = np.array(inputs, dtype=np.int32)
    o.outputs = np.array(outputs, dtype=np.int32)
    o.builtinOptionsType = opt_type
    o.builtinOptions = opt
    self.sg.operators.append(o)
    return len(self.sg.operators) - 1

  def io(self, inputs, outputs, key, in_names, out_names, sigorder=None):
    self.sg.inputs = np.array(inputs, dtype=np.int32)
    self.sg.outputs = np.array(outputs, dtype=np.int32)
    sd = s.SignatureDefT()
    sd.signatureKey = key.encode()
    sd.subgraphIndex = self.si
    sd.inputs, sd.outputs = [], []
    ins = list(zip(in_names, inputs))
    outs = list(zip(out_names, outputs))
    if sigorder == 'rev':
      # the converter orders signature entries by name, not by position
      ins.reverse()
      outs.reverse()
    for n, t in ins:
      tm = s.TensorMapT()
      tm.name = n.encode()
      tm.tensorIndex = t
      sd.inputs.append(tm)
    for n, t in outs:
      tm = s.TensorMapT()
      tm.name = n.encode()
      tm.tensorIndex = t
      sd.outputs.append(tm)
    self.m.signatureDefs.append(sd)

  def bytes(self):
    b = flatbuffers.Builder(1024)
    b.Finish(self.m.Pack(b), file_identifier=b'TFL3')
    return bytes(b.Output())


def _opt(cls, **kw):
  o = cls()
  for k, v in kw.items():
    setattr(o, k, v)
  return o


class _Ctx:
  """Per-operator build context: names and constant values."""

  def __init__(self, g, tag, pool, opidx, wk, share, sep, wkey=None):
    self.g, self.tag, self.pool, self.opidx = g, tag, pool, opidx
    self.wk, self.share, self.sep, self.wkey = wk, share, sep, wkey
    self.ctag = None
    self.slot = 0

  def name(self, leaf):
    return f'{self.tag}{self.sep}{leaf}'

  def cname(self, leaf):
    """name of a constant: may use its own prefix (duplicate-name models)"""
    return f'{self.ctag or self.tag}{self.sep}{leaf}'

  def fconst(self, leaf, shape, kind=None, weight=False):
    """float constant; `weight` marks the tensor that `share` may alias."""
    self.slot += 1
    if weight and self.share is not None:
      mode, tid, buf, arr = self.share
      if list(arr.shape) == list(shape):
        if mode == 'tensor':
          return tid
        return self.g.constant(self.cname(leaf), arr, buffer=buf)
    key = (self.pool, self.opidx, self.slot)
    if weight and self.wkey is not None:
      key = (self.pool, int(self.wkey), 1)   # values of another op's weight
    arr = const_values(kind or self.wk, shape, key)
    return self.g.constant(self.cname(leaf), arr)

  def iconst(self, leaf, values):
    return self.g.constant(self.name(leaf), np.asarray(values, dtype=np.int32))

  def out(self, shape, leaf='out'):
    return self.g.tensor(self.name(leaf), shape)


# Each builder: (ctx, variant, ins) -> (outs, roles, weight tensor id) | None
# roles per input position: D data, W weight, B bias, I index/shape/axis,
# '-' absent optional operand.
def _b_fc(c, v, ins):
  x, = ins
  sh = c.g.shape(x)
  if len(sh) < 2:
    return None
  w = c.fconst('w', [4, sh[-1]], weight=True)
  y_shape = sh[:-1] + [4]
  opt = _opt(s.FullyConnectedOptionsT, keepNumDims=True)
  if v == 'nokeepdims':
    opt.keepNumDims = False
    b = c.fconst('b', [4], 'rand')
    y = c.out([int(np.prod(sh[:-1])), 4])
    c.g.op(BO.FULLY_CONNECTED, [x, w, b], [y], OPT.FullyConnectedOptions, opt)
    return [y], 'DWB', w
  if v == 'bias_relu':
    opt.fusedActivationFunction = s.ActivationFunctionType.RELU
  if v in ('bias', 'bias_relu'):
    b = c.fconst('b', [4], 'rand')
    y = c.out(y_shape)
    c.g.op(BO.FULLY_CONNECTED, [x, w, b], [y], OPT.FullyConnectedOptions, opt)
    return [y], 'DWB', w
  y = c.out(y_shape)
  c.g.op(BO.FULLY_CONNECTED, [x, w, -1], [y], OPT.FullyConnectedOptions, opt)
  return [y], 'DW-', w


def _b_conv(c, v, ins):
  x, = ins
  sh = c.g.shape(x)
  if len(sh) != 4:
    return None
  k = 1 if v == '1x1' else 2
  if v == '2x2valid_relu6' and (sh[1] < 2 or sh[2] < 2):
    return None
  w = c.fconst('w', [4, k, k, sh[3]], weight=True)
  b = c.fconst('b', [4], 'rand')
  if v == '2x2valid_relu6':
    y = c.out([sh[0], sh[1] - 1, sh[2] - 1, 4])
    opt = _opt(s.Conv2DOptionsT, strideW=1, strideH=1, dilationWFactor=1,
               dilationHFactor=1, padding=1,  # VALID
               fusedActivationFunction=s.ActivationFunctionType.RELU6)
    c.g.op(BO.CONV_2D, [x, w, b], [y], OPT.Conv2DOptions, opt)
    return [y], 'DWB', w
  st = 2 if v == 's2' else 1   # SAME padding: out = ceil(in / stride)
  dil = 2 if v == 'dil2' else 1
  y = c.out([sh[0], -(-sh[1] // st), -(-sh[2] // st), 4])
  opt = _opt(s.Conv2DOptionsT, strideW=st, strideH=st, dilationWFactor=dil,
             dilationHFactor=dil, padding=0)  # SAME
  c.g.op(BO.CONV_2D, [x, w, b], [y], OPT.Conv2DOptions, opt)
  return [y], 'DWB', w


def _b_dw(c, v, ins):
  x, = ins
  sh = c.g.shape(x)
  if len(sh) != 4:
    return None
  mult = 2 if v == 'm2' else 1
  k, st = (2, 2) if v == 'k2s2' else (1, 1)
  w = c.fconst('w', [1, k, k, sh[3] * mult], weight=True)
  b = c.fconst('b', [sh[3] * mult], 'rand')
  y = c.out([sh[0], -(-sh[1] // st), -(-sh[2] // st), sh[3] * mult])
  opt = _opt(s.DepthwiseConv2DOptionsT, strideW=st, strideH=st,
             dilationWFactor=1, dilationHFactor=1, depthMultiplier=mult,
             padding=0)
  c.g.op(BO.DEPTHWISE_CONV_2D, [x, w, b], [y], OPT.DepthwiseConv2DOptions, opt)
  return [y], 'DWB', w


def _b_tconv(c, v, ins):
  x, = ins
  sh = c.g.shape(x)
  if len(sh) != 4:
    return None
  k, st = (2, 2) if v == 's2' else (1, 1)
  osh = [sh[0], sh[1] * st, sh[2] * st, 4]
  os_ = c.iconst('oshape', osh)
  w = c.fconst('w', [4, k, k, sh[3]], weight=True)
  opt = _opt(s.TransposeConvOptionsT, strideW=st, strideH=st, padding=0)
  if v in ('bias', 's2'):
    b = c.fconst('b', [4], 'rand')
    y = c.out(osh)
    c.g.op(BO.TRANSPOSE_CONV, [os_, w, x, b], [y], OPT.TransposeConvOptions, opt)
    return [y], 'IWDB', w
  y = c.out(osh)
  c.g.op(BO.TRANSPOSE_CONV, [os_, w, x], [y], OPT.TransposeConvOptions, opt)
  return [y], 'IWD', w


def _b_bmm(c, v, ins):
  if v == 'rt':
    a, b = ins
    sa, sb = c.g.shape(a), c.g.shape(b)
    if sa != sb or len(sa) < 2:
      return None
    y = c.out(sa[:-1] + [sa[-2]])
    c.g.op(BO.BATCH_MATMUL, [a, b], [y], OPT.BatchMatMulOptions,
           _opt(s.BatchMatMulOptionsT, adjY=True))
    return [y], 'DD', None
  x, = ins
  sh = c.g.shape(x)
  if len(sh) < 2:
    return None
  lead = [1] * (len(sh) - 2)
  if v == 'const_adjx':
    w = c.fconst('w', lead + [sh[-2], 4], weight=True)
    y = c.out(sh[:-2] + [sh[-1], 4])
    c.g.op(BO.BATCH_MATMUL, [x, w], [y], OPT.BatchMatMulOptions,
           _opt(s.BatchMatMulOptionsT, adjX=True))
    return [y], 'DW', w
  if v == 'const_b2':
    # constant RHS with a batch dimension of 2 (broadcast against the LHS)
    if len(sh) < 3 or sh[0] != 1:
      return None
    w = c.fconst('w', [2] + lead[1:] + [sh[-1], 4], weight=True)
    y = c.out([2] + sh[1:-1] + [4])
    c.g.op(BO.BATCH_MATMUL, [x, w], [y], OPT.BatchMatMulOptions,
           s.BatchMatMulOptionsT())
    return [y], 'DW', w
  if v == 'const':
    w = c.fconst('w', lead + [sh[-1], 4], weight=True)
    opt = s.BatchMatMulOptionsT()
  else:
    w = c.fconst('w', lead + [4, sh[-1]], weight=True)
    opt = _opt(s.BatchMatMulOptionsT, adjY=True)
  y = c.out(sh[:-1] + [4])
  c.g.op(BO.BATCH_MATMUL, [x, w], [y], OPT.BatchMatMulOptions, opt)
  return [y], 'DW', w


def _b_emb(c, v, ins):
  ids = c.g.ids_tensor()
  d = 4 if v == 'w4' else 3
  rows = 5 if v == 'v5' else 4   # v5: 15 elements, an odd count for int4 packing
  w = c.fconst('table', [rows, d], weight=True)
  y = c.out([len(IDS), d])
  c.g.op(BO.EMBEDDING_LOOKUP, [ids, w], [y])
  return [y], 'IW', w


def _unary(code, ot=0, oc=None):
  def f(c, v, ins):
    x, = ins
    y = c.out(c.g.shape(x))
    o = oc() if oc else None
    if v == 'beta2':
      o.beta = 2.0
    c.g.op(code, [x], [y], ot, o)
    return [y], 'D', None
  return f


def _binary(code, ot, oc):
  def f(c, v, ins):
    if v in ('tc', 'ts', 's0', 'tc_relu6'):
      a, = ins
      sh = c.g.shape(a)
      # s0: a rank-0 constant, as the converter emits for `x + 1.0`
      b = c.fconst('c', {'tc': sh[-1:], 'ts': [1], 's0': [],
                         'tc_relu6': sh[-1:]}[v], weight=True)
    elif v == 'bc':
      # constant whose leading dimension broadcasts the *activation* (the
      # output is larger than the runtime operand)
      a, = ins
      sh = c.g.shape(a)
      if len(sh) < 2 or sh[0] != 1:
        return None
      b = c.fconst('c', [2] + [1] * (len(sh) - 2) + sh[-1:], weight=True)
      sh = [2] + sh[1:]
    else:
      a, b = ins
      if c.g.shape(a) != c.g.shape(b):
        return None
      sh = c.g.shape(a)
    y = c.out(sh)
    o = oc()
    if v.endswith('_relu'):
      o.fusedActivationFunction = s.ActivationFunctionType.RELU
    if v.endswith('_relu6'):
      o.fusedActivationFunction = s.ActivationFunctionType.RELU6
    c.g.op(code, [a, b], [y], ot, o)
    return [y], 'DD', (b if v in ('tc', 'ts', 's0', 'bc', 'tc_relu6')
                       else None)
  return f


def _b_reshape(c, v, ins):
  x, = ins
  sh = c.g.shape(x)
  osh = list(sh) if v == 'same' else [1, int(np.prod(sh))]
  shp = c.iconst('shape', osh)
  y = c.out(osh)
  c.g.op(BO.RESHAPE, [x, shp], [y], OPT.ReshapeOptions,
         _opt(s.ReshapeOptionsT, newShape=np.array(osh, dtype=np.int32)))
  return [y], 'DI', None


def _b_transpose(c, v, ins):
  x, = ins
  sh = c.g.shape(x)
  perm = [0, 2, 1, 3] if len(sh) == 4 else list(range(len(sh)))[::-1]
  p = c.iconst('perm', perm)
  y = c.out([sh[i] for i in perm])
  c.g.op(BO.TRANSPOSE, [x, p], [y], OPT.TransposeOptions, s.TransposeOptionsT())
  return [y], 'DI', None


def _b_avgpool(c, v, ins):
  x, = ins
  sh = c.g.shape(x)
  if len(sh) != 4:
    return None
  k = 1 if v == '1x1' else 2
  if v == 's2':
    if sh[1] < 2 or sh[2] < 2:
      return None
    y = c.out([sh[0], sh[1] // 2, sh[2] // 2, sh[3]])
    c.g.op(BO.AVERAGE_POOL_2D, [x], [y], OPT.Pool2DOptions,
           _opt(s.Pool2DOptionsT, strideW=2, strideH=2, filterWidth=2,
                filterHeight=2, padding=1))
    return [y], 'D', None
  if v == '2x2valid':
    if sh[1] < 2 or sh[2] < 2:
      return None
    y = c.out([sh[0], sh[1] - 1, sh[2] - 1, sh[3]])
    c.g.op(BO.AVERAGE_POOL_2D, [x], [y], OPT.Pool2DOptions,
           _opt(s.Pool2DOptionsT, strideW=1, strideH=1, filterWidth=2,
                filterHeight=2, padding=1))
    return [y], 'D', None
  y = c.out(sh)
  c.g.op(BO.AVERAGE_POOL_2D, [x], [y], OPT.Pool2DOptions,
         _opt(s.Pool2DOptionsT, strideW=1, strideH=1, filterWidth=k,
              filterHeight=k, padding=0))
  return [y], 'D', None


def _b_mean(c, v, ins):
  x, = ins
  sh = c.g.shape(x)
  axis = 1 if len(sh) == 4 else 0
  if v == 'ax2':
    if len(sh) != 4:
      return None
    ax = c.iconst('axis', [1, 2])
    y = c.out([sh[0], 1, 1, sh[3]])
    c.g.op(BO.MEAN, [x, ax], [y], OPT.ReducerOptions,
           _opt(s.ReducerOptionsT, keepDims=True))
    return [y], 'DI', None
  ax = c.iconst('axis', [axis])
  osh = list(sh)
  osh[axis] = 1
  if v == 'nokeep':
    if len(sh) < 2:
      return None
    osh = [d for i, d in enumerate(sh) if i != axis]
  y = c.out(osh)
  c.g.op(BO.MEAN, [x, ax], [y], OPT.ReducerOptions,
         _opt(s.ReducerOptionsT, keepDims=(v != 'nokeep')))
  return [y], 'DI', None


def _b_concat(c, v, ins):
  if v == 'tc':
    a, = ins
    sh = c.g.shape(a)
    b = c.fconst('c', sh, weight=True)
    axis = len(sh) - 1
  else:
    a, b = ins
    if c.g.shape(a) != c.g.shape(b):
      return None
    sh = c.g.shape(a)
    axis = 0 if v == 'ax0' else len(sh) - 1
  osh = list(sh)
  osh[axis] *= 2
  y = c.out(osh)
  c.g.op(BO.CONCATENATION, [a, b], [y], OPT.ConcatenationOptions,
         _opt(s.ConcatenationOptionsT, axis=axis))
  return [y], 'DD', (b if v == 'tc' else None)


def _b_sslice(c, v, ins):
  x, = ins
  sh = c.g.shape(x)
  r = len(sh)
  osh = list(sh)
  strides = [1] * r
  end = None
  if v == 'crop':
    if sh[-1] < 2:
      return None
    osh[-1] = sh[-1] - 1
  if v == 'stride2':
    if sh[-1] < 2:
      return None
    strides[-1] = 2
    end = list(sh)
    osh[-1] = (sh[-1] + 1) // 2
  b = c.iconst('begin', [0] * r)
  e = c.iconst('end', end or osh)
  st = c.iconst('strides', strides)
  y = c.out(osh)
  c.g.op(BO.STRIDED_SLICE, [x, b, e, st], [y], OPT.StridedSliceOptions,
         s.StridedSliceOptionsT())
  return [y], 'DIII', None


def _b_split(c, v, ins):
  x, = ins
  sh = c.g.shape(x)
  if sh[-1] % 2:
    return None
  ax = c.g.constant(c.name('axis'), np.array(len(sh) - 1, dtype=np.int32))
  osh = sh[:-1] + [sh[-1] // 2]
  y0 = c.out(osh, 'out0')
  y1 = c.out(osh, 'out1')
  c.g.op(BO.SPLIT, [ax, x], [y0, y1], OPT.SplitOptions,
         _opt(s.SplitOptionsT, numSplits=2))
  return [y0, y1], 'ID', None


_SOFT = lambda: _opt(s.SoftmaxOptionsT, beta=1.0)
BUILDERS = {
    'FULLY_CONNECTED': _b_fc, 'CONV_2D': _b_conv, 'DEPTHWISE_CONV_2D': _b_dw,
    'CONV_2D_TRANSPOSE': _b_tconv, 'BATCH_MATMUL': _b_bmm,
    'EMBEDDING_LOOKUP': _b_emb,
    'SOFTMAX': _unary(BO.SOFTMAX, OPT.SoftmaxOptions, _SOFT),
    'TANH': _unary(BO.TANH), 'LOGISTIC': _unary(BO.LOGISTIC),
    'GELU': _unary(BO.GELU, OPT.GeluOptions, s.GeluOptionsT),
    'RSQRT': _unary(BO.RSQRT), 'ABS': _unary(BO.ABS), 'RELU': _unary(BO.RELU),
    'ADD': _binary(BO.ADD, OPT.AddOptions, s.AddOptionsT),
    'SUB': _binary(BO.SUB, OPT.SubOptions, s.SubOptionsT),
    'MUL': _binary(BO.MUL, OPT.MulOptions, s.MulOptionsT),
    'MAXIMUM': _binary(BO.MAXIMUM, OPT.MaximumMinimumOptions,
                       s.MaximumMinimumOptionsT),
    'RESHAPE': _b_reshape, 'TRANSPOSE': _b_transpose,
    'AVERAGE_POOL_2D': _b_avgpool, 'MEAN': _b_mean,
    'CONCATENATION': _b_concat, 'STRIDED_SLICE': _b_sslice, 'SPLIT': _b_split,
}


class OpMeta:
  __slots__ = ('index', 'type', 'variant', 'roles', 'ins', 'outs', 'tag',
               'sub', 'weight')

  def __init__(self, **kw):
    for k, v in kw.items():
      setattr(self, k, v)

  def scope_name(self, built):
    return built.tname(self.sub, self.outs[0])


class Built:
  """Result of building an IR: bytes + metadata the oracles need."""

  def __init__(self):
    self.model = None       # bytes
    self.ops = []           # list[list[OpMeta]] per subgraph
    self.g = None
    self.inputs = []        # per subgraph: list of (arg name, tensor id, kind)
    self.outputs = []       # per subgraph: list of (arg name, tensor id)
    self.keys = []
    self.handles = []       # per subgraph: handle -> tensor id

  def tname(self, si, tid):
    return self.g.m.subgraphs[si].tensors[tid].name.decode()

  def is_const(self, si, tid):
    return (si, tid) in self.g.const

  def const(self, si, tid):
    return self.g.const[(si, tid)]

  def all_ops(self):
    return [o for sub in self.ops for o in sub]

  def input_data(self, si, kind):
    d = {}
    for arg, tid, k in self.inputs[si]:
      if k == 'ids':
        d[arg] = np.array(IDS, dtype=np.int32)
      else:
        d[arg] = input_values(kind, self.g.m.subgraphs[si].tensors[tid].shape)
    return d


def _sep(names):
  return {'plain': '/', 'semi': ';', 'colon': ':'}[names]


def build(ir):
  """Build the flatbuffer for an IR; returns Built or None if ill-shaped."""
  g = _G()
  out = Built()
  out.g = g
  pool = int(ir.get('pool', 0))
  sep = _sep(ir.get('names', 'plain'))
  xshape = {'S4': S4, 'S43': [1, 2, 2, 3], 'R2': [2, 4], 'R3': [1, 2, 4],
            'O13': [1, 3],
            'O35': [3, 5]}[ir.get('x', 'S4')]
  weights = {}  # (subgraph, op index) -> (tensor id, buffer, array)
  for si, sub in enumerate(ir['subgraphs']):
    prefix = sub.get('prefix', '')
    g.subgraph(sub.get('name', f'sg{si}'))
    state = {'ids': None}

    def ids_tensor():
      if state['ids'] is None:
        state['ids'] = g.tensor(f'{prefix}ids', [len(IDS)], I32)
      return state['ids']
    g.ids_tensor = ids_tensor
    uses_x = any(0 in op['in'] for op in sub['ops'])
    x = g.tensor(f'{prefix}x', xshape) if uses_x else None
    handles = [x]
    used = set()
    metas = []
    for i, op in enumerate(sub['ops']):
      t, v = op['t'], op.get('v', FIRST_VARIANT[op['t']][0])
      tag = f'{prefix}op{i}_{t.lower()}'
      share = None
      if op.get('share') is not None:
        mode, ssi, sidx = op['share']
        src = weights.get((ssi, sidx))
        if src is None:
          return None
        if mode == 'tensor' and ssi != si:
          return None
        share = (mode,) + src
      c = _Ctx(g, tag, pool, 1000 * sub.get('cbase', si) + i,
               op.get('wk', 'rand'), share, sep, op.get('wkey'))
      if 'cprefix' in sub:
        c.ctag = f"{sub['cprefix']}op{i}_{t.lower()}"
      try:
        ins = [handles[r] for r in op['in']]
      except IndexError:
        return None
      r = BUILDERS[t](c, v, ins)
      if r is None:
        return None
      outs, roles, w = r
      if share is not None and (w is None or (
          share[0] == 'tensor' and w != share[1]) or (
          share[0] == 'buffer' and
          g.sg.tensors[w].buffer != share[2])):
        return None  # sharing requested but shapes did not allow it
      if w is not None:
        weights[(si, i)] = (w, g.sg.tensors[w].buffer, g.const[(si, w)])
      used.update(op['in'])
      metas.append(OpMeta(index=i, type=t, variant=v, roles=roles,
                          ins=[int(k) for k in g.sg.operators[-1].inputs],
                          outs=list(outs), tag=tag, sub=si, weight=w))
      handles.extend(outs)
    sinks = [h for h in range(1, len(handles)) if h not in used]
    exports = [e for e in sub.get('exports', []) if e not in sinks]
    if any(e <= 0 or e >= len(handles) for e in exports):
      return None
    out_handles = sinks + exports
    if not out_handles:
      return None
    inputs = []
    if 0 in used:
      inputs.append(('x', x, 'x'))
    if state['ids'] is not None:
      inputs.append(('ids', state['ids'], 'ids'))
    if not inputs:
      return None
    outputs = [(f'out{k}', handles[h]) for k, h in enumerate(out_handles)]
    if sub.get('dupout'):
      # the same tensor exported twice (schema-valid; e.g. one value returned
      # under two names)
      outputs.append((f'out{len(outputs)}', outputs[0][1]))
    if sub.get('xout') and 0 in used:
      # the graph input is also returned as an output (pass-through)
      outputs.append((f'out{len(outputs)}', x))
    if ir.get('zlen'):
      # a constant with zero elements (data present but empty), as the
      # converter leaves behind for `reshape(x, [])`; not read by any operator
      zt = s.TensorT()
      zt.name = f'{prefix}empty_shape'.encode()
      zt.shape = np.array([0], dtype=np.int32)
      zt.type = I32
      zt.buffer = g.buf(np.zeros(0, dtype=np.int32))
      zt.quantization = s.QuantizationParametersT()
      g.sg.tensors.append(zt)
    if sub.get('ioorder') == 'rev':
      # subgraph inputs/outputs listed in the opposite order (e.g. the int32
      # ids input before the float input)
      inputs.reverse()
      outputs.reverse()
    g.io([t for _, t, _ in inputs], [t for _, t in outputs],
         sub.get('key', 'serving_default' if si == 0 else f'sig{si}'),
         [a for a, _, _ in inputs], [a for a, _ in outputs],
         sub.get('sigorder'))
    out.ops.append(metas)
    out.inputs.append(inputs)
    out.outputs.append(outputs)
    out.keys.append(g.m.signatureDefs[-1].signatureKey.decode())
    out.handles.append(handles)
  if ir.get('sigdefs') == 'rev':
    # signature_defs listed in another order than their subgraphs
    g.m.signatureDefs.reverse()
  out.model = g.bytes()
  if ir.get('external'):
    out.model = to_external(out.model)
  return out


def to_external(model_bytes):
  """Re-serialize a model in the large-model layout: constant data appended
  after the flatbuffer, buffers carry (offset, size), 16-byte aligned.  Written
  from the TFLite schema comments, independent of the library's writer."""
  m = s.ModelT.InitFromPackedBuf(bytes(model_bytes), 0)
  datas = []
  for b in m.buffers:
    if b.data is not None and len(b.data):
      datas.append(bytes(np.asarray(b.data, dtype=np.uint8).tobytes()))
      b.data = None
      b.offset, b.size = 1, 1      # placeholders keep the fields present
    else:
      datas.append(None)

  def pack():
    fb = flatbuffers.Builder(1024)
    fb.Finish(m.Pack(fb), file_identifier=b'TFL3')
    return bytes(fb.Output())
  head = pack()
  off = (len(head) + 15) // 16 * 16
  for b, d in zip(m.buffers, datas):
    if d is None:
      continue
    b.offset, b.size = off, len(d)
    off = (off + len(d) + 15) // 16 * 16
  head2 = pack()
  assert len(head2) == len(head)
  out = bytearray(head2)
  out += b'\0' * (-len(out) % 16)
  for d in datas:
    if d is None:
      continue
    out += d
    out += b'\0' * (-len(out) % 16)
  return bytes(out)


def single(ops, exports=(), **kw):
  """IR with one subgraph."""
  ir = {'subgraphs': [{'ops': ops, 'exports': list(exports)}]}
  ir.update(kw)
  return ir


def op(t, v=None, ins=(0,), **kw):
  d = {'t': t, 'v': v if v is not None else FIRST_VARIANT[t][0],
       'in': list(ins)}
  d.update(kw)
  return d


def ir_key(ir):
  import json
  return json.dumps(ir, sort_keys=True, separators=(',', ':'))
