"""E2 state space of the recipe API (C11, C12): histories of update/load calls
on a fresh Quantizer, stepped in lock-step with the reference model R-recipe."""
import copy
import hashlib
import json

from vf import env, modes, ref_recipe

MMU, FCA, NOQ = modes.MMU, modes.FC_, modes.NOQ
DEFAULT_EXPORT = {'compute_precision': 'FLOAT', 'explicit_dequantize': False,
                  'skip_checks': False}

# (label, algorithm, config dict or None)
COMBOS = [
    ('SRQ8a', MMU, modes.MODES['SRQ8a'][1]),
    ('DRQ8c', MMU, modes.MODES['DRQ8c'][1]),
    ('FP16', FCA, modes.MODES['FP16'][1]),
    ('NOQ', NOQ, None),
    ('FP16/mmu', MMU, modes.MODES['FP16'][1]),   # refused for a specific op
    ('default/mmu', MMU, None),                  # default config
]
BLK = ('BLK8', MMU, modes.MODES['BLK8'][1])
# an integer config under float casting with skip_checks: refused without the
# flag, and TANH is not even registered for that algorithm; with the flag the
# support check must let it through (C11 only)
SKIP = ('SRQ8a/fc+skip', FCA, dict(copy.deepcopy(modes.MODES['SRQ8a'][1]),
                                  skip_checks=True))
COMBOS_T = COMBOS + [BLK,
    ('WO8c', MMU, modes.MODES['WO8c'][1]),
    ('SRQ8a/fc', FCA, modes.MODES['SRQ8a'][1]),  # refused for a specific op
]
REGEXES = ['.*', 'a', '^b']
OPS_Q = ['*', 'FULLY_CONNECTED', 'TANH']
OPS_T = OPS_Q + ['EMBEDDING_LOOKUP']
QUERY_OPS = ['FULLY_CONNECTED', 'TANH', 'EMBEDDING_LOOKUP', 'CONV_2D', 'INPUT']
QUERY_SCOPES = ['a;', 'b;', 'ab;', 'ba;', 'c;', '']


def load_recipes():
  sh = modes.shipped_recipes()
  return [
      ('load:a8w8', sh['default_a8w8']),
      ('load:af32w4', sh['default_af32w4float']),
      ('load:two', [modes.rule('a', 'FULLY_CONNECTED', 'DRQ8c'),
                    modes.rule('.*', '*', 'SRQ8a'),
                    modes.rule('a', 'TANH', 'NQ')]),
      ('load:empty', []),
  ]


def events_mini():
  """12 adds over 2 regexes x {'*', FULLY_CONNECTED} x 3 combos + 1 load:
  small enough for depth 5."""
  ev = []
  for rg in ('.*', 'a'):
    for op in ('*', 'FULLY_CONNECTED'):
      for label, alg, cfg in (COMBOS[0], COMBOS[1], COMBOS[3]):
        ev.append({'e': 'add', 'regex': rg, 'op': op, 'alg': alg, 'cfg': cfg,
                   'label': f'add({rg},{op},{label})'})
  ev.append({'e': 'load', 'recipe': load_recipes()[2][1], 'label': 'load:two'})
  return ev


def events(tier, blk=False):
  if tier == 'mini':
    return events_mini()
  combos = (COMBOS + ([BLK] if blk else [SKIP])) if tier == 'quick' \
      else COMBOS_T + ([] if blk else [SKIP])
  ops = OPS_Q if tier == 'quick' else OPS_T
  ev = []
  for rg in REGEXES:
    for op in ops:
      for label, alg, cfg in combos:
        ev.append({'e': 'add', 'regex': rg, 'op': op, 'alg': alg,
                   'cfg': cfg, 'label': f'add({rg},{op},{label})'})
  for label, r in load_recipes():
    ev.append({'e': 'load', 'recipe': r, 'label': label})
  return ev


def export_form(cfg):
  """What get_quantization_recipe() must show for a config passed to add."""
  if cfg is None:
    return dict(DEFAULT_EXPORT)
  c = json.loads(json.dumps(cfg))
  for k in ('weight_tensor_config', 'activation_tensor_config'):
    if k in c:
      c[k].setdefault('symmetric', True)
      c[k].setdefault('granularity', 'TENSORWISE')
      c[k].setdefault('dtype', 'INT')
      c[k].setdefault('block_size', 0)
  c.setdefault('compute_precision', 'FLOAT')
  c.setdefault('explicit_dequantize', False)
  c.setdefault('skip_checks', False)
  return c


class Impl:
  """The real API object for one history."""

  def __init__(self):
    self.L = env.lib()
    self.qt = self.L.quantizer.Quantizer(b'not-a-model-the-recipe-api-never-'
                                         b'reads-it')

  def cfg_obj(self, cfg, enums=True):
    """Config object as a Python user builds it: enum-valued fields (a JSON
    recipe, by contrast, carries plain strings)."""
    if cfg is None:
      return None
    q = self.L.qtyping
    if not enums:
      return q.OpQuantizationConfig.from_dict(json.loads(json.dumps(cfg)))

    def tcfg(d):
      return q.TensorQuantizationConfig(
          num_bits=d['num_bits'], symmetric=d.get('symmetric', True),
          granularity=q.QuantGranularity(d.get('granularity', 'TENSORWISE')),
          dtype=q.TensorDataType(d.get('dtype', 'INT')),
          block_size=d.get('block_size', 0))
    a = cfg.get('activation_tensor_config')
    return q.OpQuantizationConfig(
        activation_tensor_config=tcfg(a) if a else None,
        weight_tensor_config=tcfg(cfg['weight_tensor_config']),
        compute_precision=q.ComputePrecision(cfg['compute_precision']),
        explicit_dequantize=cfg['explicit_dequantize'],
        skip_checks=cfg.get('skip_checks', False))

  def apply(self, ev):
    """Returns None, or the exception raised."""
    try:
      if ev['e'] == 'add':
        self.qt.update_quantization_recipe(
            ev['regex'], self.L.qtyping.TFLOperationName(ev['op']),
            self.cfg_obj(ev['cfg'], ev.get('enums', True)),
            self.L.quantizer.AlgorithmName(ev['alg'])
            if ev.get('enums', True) else ev['alg'])
      else:
        self.qt.load_quantization_recipe(copy.deepcopy(ev['recipe']))
    except Exception as e:  # pylint: disable=broad-except
      return e
    return None

  def recipe(self):
    return json.loads(json.dumps(self.qt.get_quantization_recipe()))

  def need_calibration(self):
    return self.qt.need_calibration

  def resolve(self, op, scope):
    alg, cfg = self.qt._recipe_manager.get_quantization_configs(
        self.L.qtyping.TFLOperationName(op), scope)
    return str(getattr(alg, 'value', alg)), json.loads(json.dumps(cfg.to_dict()))


_check_cache = {}


def supported(alg, op, cfg_export):
  """Observable answer of the library's support check (input of R-recipe);
  skip_checks is defined here, not observed: it bypasses the whole check."""
  if cfg_export is not None and cfg_export.get('skip_checks'):
    return True
  k = (alg, op, json.dumps(cfg_export, sort_keys=True))
  if k not in _check_cache:
    L = env.lib()
    try:
      c = cfg_export if cfg_export is not None else DEFAULT_EXPORT
      if 'weight_tensor_config' in c:
        oc = L.qtyping.OpQuantizationConfig.from_dict(json.loads(json.dumps(c)))
      else:
        oc = L.qtyping.OpQuantizationConfig(
            compute_precision=c['compute_precision'],
            explicit_dequantize=c['explicit_dequantize'],
            skip_checks=c['skip_checks'])
      L.algorithm_manager.check_op_quantization_config(
          alg, L.qtyping.TFLOperationName(op), oc)
      _check_cache[k] = True
    except ValueError:
      _check_cache[k] = False
  return _check_cache[k]


class Ref:
  """R-recipe stepped through the same events."""

  def __init__(self):
    self.r = ref_recipe.RefRecipe()

  def apply(self, ev):
    """Returns True if the reference predicts the call is refused."""
    if ev['e'] == 'add':
      return self._add(ev['regex'], ev['op'], ev['alg'], export_form(ev['cfg']))
    self.r.scopes = []
    for ru in ev['recipe']:
      cfg = export_form(ru.get('op_config')) if ru['algorithm_key'] != NOQ \
          else export_form(None)
      if self._add(ru['regex'], ru['operation'], ru['algorithm_key'], cfg):
        return True
    return False

  def _add(self, regex, op, alg, cfg):
    if op != '*' and alg != NOQ and not supported(alg, op, cfg):
      return True
    self.r.add(regex, op, alg, cfg)
    return False

  def recipe(self):
    return [{'regex': r['regex'], 'operation': r['operation'],
             'algorithm_key': r['algorithm_key'], 'op_config': r['op_config']}
            for r in self.r.rules()]

  def need_calibration(self):
    # a rule with integer compute and an activation config needs statistics
    return any(r['op_config'].get('compute_precision') == 'INTEGER' and
               'activation_tensor_config' in r['op_config']
               for r in self.r.rules())

  def resolve(self, op, scope):
    alg, cfg = self.r.resolve(op, scope, supported)
    return alg, (cfg if cfg is not None else dict(DEFAULT_EXPORT))


def state_key(recipe):
  return hashlib.sha256(json.dumps(recipe, sort_keys=True).encode()
                        ).hexdigest()[:20]


def table(obj):
  return [[op, sc] + list(obj.resolve(op, sc))
          for op in QUERY_OPS for sc in QUERY_SCOPES] + [
              ['need_calibration', '', str(bool(obj.need_calibration())), {}]]


def explore(first, depth, evs, visit, res, only=None):
  """DFS over all histories [first, ...] of length <= depth with state dedup.

  visit(hist_labels, impl, ref, before_recipe, exc, refused) -> failures,
  called on the final state of every history that is executed.
  Returns {state key: table hash} of the visited states."""
  seen = {}
  tables = {}
  stack = [[first]]
  fails = []
  while stack:
    hist = stack.pop()
    impl, ref = Impl(), Ref()
    for i in hist[:-1]:
      impl.apply(evs[i])
      ref.apply(evs[i])
      # resolve between the calls, on the same object: a stale cache inside
      # the manager must show up in the final table
      table(impl)
    before = impl.recipe()
    exc = impl.apply(evs[hist[-1]])
    refused = ref.apply(evs[hist[-1]])
    res['transitions'] += len(hist)
    res['evals'] += 1
    labels = [evs[i]['label'] for i in hist]
    sub = ' ; '.join(labels)
    if only is not None and sub != only:
      pass
    else:
      fails.extend(visit(labels, impl, ref, before, exc, refused, sub))
    rec = impl.recipe()
    key = state_key(rec)
    th = hashlib.sha256(json.dumps(table(impl), sort_keys=True).encode()
                        ).hexdigest()[:16]
    if key in tables and tables[key][0] != th:
      fails.append(('revisit_disagrees', f'state {key} reached by '
                    f'[{tables[key][1]}] and [{sub}] resolves differently', sub))
    tables.setdefault(key, (th, sub))
    rem = depth - len(hist)
    if key in seen and seen[key] >= rem:
      continue
    if key not in seen:
      res['states'] += 1
    seen[key] = rem
    if rem > 0:
      for i in range(len(evs) - 1, -1, -1):
        stack.append(hist + [i])
  return fails, {k: v[0] for k, v in tables.items()}
