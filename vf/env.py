"""Process environment for the verification framework.

Importing this module (first!) points Python at the repository tree under test
(`VERIF_REPO`, default /repo), switches the hook guard on and silences
TensorFlow/absl logging.  The library is imported from the working tree, so
there is nothing to rebuild after an edit.
"""
import os
import sys

REPO = os.environ.get('VERIF_REPO', '/repo')
VERIF = os.path.dirname(os.path.dirname(os.path.abspath(__file__)))
GUARD = 'AI_EDGE_QUANTIZER_VERIF'

os.environ.setdefault('TF_CPP_MIN_LOG_LEVEL', '3')
os.environ.setdefault('PYTHONHASHSEED', '0')
os.environ[GUARD] = '1'
# Never let a stray installed copy shadow the tree under test.
sys.path[:] = [p for p in sys.path if 'ai_edge_quantizer' not in p]
if REPO not in sys.path:
  sys.path.insert(0, REPO)
if VERIF not in sys.path:
  sys.path.insert(1, VERIF)

_lib = None


class _Lib:
  """Lazy handle on the library modules (import costs ~8 s because of TF)."""

  def __init__(self):
    import warnings
    warnings.filterwarnings('ignore')
    import absl.logging
    absl.logging.set_verbosity('error')
    import logging
    logging.getLogger().setLevel(logging.ERROR)
    from ai_edge_quantizer import quantizer, qtyping, recipe_manager
    from ai_edge_quantizer import algorithm_manager, recipe
    import ai_edge_quantizer
    self.quantizer = quantizer
    self.qtyping = qtyping
    self.recipe_manager = recipe_manager
    self.algorithm_manager = algorithm_manager
    self.recipe = recipe
    self.pkg_dir = os.path.dirname(os.path.abspath(ai_edge_quantizer.__file__))
    if not self.pkg_dir.startswith(os.path.abspath(REPO)):
      raise RuntimeError(
          f'library imported from {self.pkg_dir}, expected under {REPO}')


def lib():
  global _lib
  if _lib is None:
    _lib = _Lib()
  return _lib


def seed():
  try:
    return int(os.environ.get('VERIF_SEED', '0'))
  except ValueError:
    return 0


def ncpu():
  try:
    n = int(os.environ.get('VERIF_WORKERS', '0'))
  except ValueError:
    n = 0
  return n or min(16, os.cpu_count() or 1)
