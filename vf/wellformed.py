"""C01 structural invariant on a parsed model (independent of the library)."""
from vf import fbparse


def check(pm):
  """Returns a list of (kind, detail) problems; empty when well-formed."""
  probs = []
  nbuf = len(pm.buffers)
  names = {}
  for si, sg in enumerate(pm.subs):
    nt = len(sg.tensors)
    for t in sg.tensors:
      if not (0 <= t.buffer < nbuf):
        probs.append(('index_range', f'sg{si} tensor {t.index} buffer {t.buffer}'))
      if t.name in names:
        probs.append(('dup_names', f'{t.name!r} in sg{names[t.name]} and sg{si}'))
      else:
        names[t.name] = si
    available = set(i for i in sg.inputs if 0 <= i < nt)
    for t in sg.tensors:
      if 0 <= t.buffer < nbuf and pm.buffers[t.buffer] is not None:
        available.add(t.index)
    produced = {}
    for o in sg.ops:
      if o.code is None:
        probs.append(('index_range', f'sg{si} op {o.index} opcode index '
                      f'{o.opcode_index}'))
      for i in o.inputs:
        if i == -1:
          continue
        if not (0 <= i < nt):
          probs.append(('index_range', f'sg{si} op {o.index} input {i}'))
        elif i not in available:
          probs.append(('order', f'sg{si} op {o.index} '
                        f'({fbparse.BN.get(o.code)}) reads tensor {i} '
                        f'({sg.tensors[i].name}) before it is produced'))
      for t in o.outputs:
        if not (0 <= t < nt):
          probs.append(('index_range', f'sg{si} op {o.index} output {t}'))
          continue
        if t in produced:
          probs.append(('multi_producer', f'sg{si} tensor {t} produced by ops '
                        f'{produced[t]} and {o.index}'))
        produced[t] = o.index
        available.add(t)
    for k, i in enumerate(sg.inputs):
      if not (0 <= i < nt):
        probs.append(('io_ref', f'sg{si} input {k} -> {i}'))
    for k, i in enumerate(sg.outputs):
      if not (0 <= i < nt):
        probs.append(('io_ref', f'sg{si} output {k} -> {i}'))
      elif i not in available:
        probs.append(('order', f'sg{si} output {k} tensor {i} never produced'))
  for sd in pm.sigs:
    if not (0 <= sd['sub'] < len(pm.subs)):
      probs.append(('sig_ref', f"signature {sd['key']} subgraph {sd['sub']}"))
      continue
    nt = len(pm.subs[sd['sub']].tensors)
    for n, i in sd['inputs'] + sd['outputs']:
      if not (0 <= i < nt):
        probs.append(('sig_ref', f"signature {sd['key']} arg {n} -> {i}"))
  return probs
