"""C02 - quantization preserves the graph skeleton and the model I/O contract."""
import re

from vf import enum_graphs as eg
from vf import fbparse, skeleton, universe
from vf.oracles import common
from vf.oracles import c01

PROP = 'C02'
F32 = fbparse.T.FLOAT32


def plan(tier, seed):
  p = c01.plan(tier, seed)
  p['cases'] = c01.cases(tier, sigrev=True, blk=False, n4=False)  # blockwise excluded by C02
  p['rule'] = ('E1 (same universe as C01): for every returned model, delete '
               'inserted QUANTIZE/DEQUANTIZE ops, contract output->input and '
               'compare with the input IR: operators/order/opcodes/packed '
               'option bytes/operand roots, original tensors [0,n) unchanged in '
               'index, name, shape; subgraph I/O count, order, names, shapes; '
               'signature keys, argument names and tensor indices equal to the '
               'subgraph I/O entries; model I/O dtype float32 unless the '
               'reference recipe model resolves INPUT/OUTPUT to a quantized '
               'mode. non-trivial = returned bytes differ from the float model')
  return p


def oracle(ctx):
  fails = []
  fm, qm = ctx.fm, ctx.pm
  if len(fm.subs) != len(qm.subs):
    return [ctx.fail('subgraph_count', f'{len(fm.subs)} -> {len(qm.subs)}')]
  modes, io = ctx.modes
  for si in range(len(fm.subs)):
    m = skeleton.extract(fm, qm, si)
    fs, qs = fm.subs[si], qm.subs[si]
    for kind, detail in m.problems:
      facts = {}
      if kind == 'output_renamed':
        mm = re.match(r"output (\d+): '(.*)' -> '(.*)'", detail)
        k = int(mm.group(1))
        facts = {'orig': mm.group(2), 'new': mm.group(3),
                 'via_inserted': qs.outputs[k] != fs.outputs[k]}
      fails.append(ctx.fail(kind, f'sg{si}: {detail}', facts=facts))
    # model I/O dtypes
    if len(fs.inputs) == len(qs.inputs):
      for k, (a, b) in enumerate(zip(fs.inputs, qs.inputs)):
        if 0 <= b < len(qs.tensors) and qs.tensors[b].type != fs.tensors[a].type:
          if fs.tensors[a].type != F32 or io['INPUT'] in ('NQ', None):
            fails.append(ctx.fail(
                'input_dtype', f'sg{si} input {k} {fs.tensors[a].name}: '
                f'{fbparse.TN[fs.tensors[a].type]} -> '
                f'{fbparse.TN[qs.tensors[b].type]} although no rule covers INPUT'))
    if len(fs.outputs) == len(qs.outputs):
      for k, (a, b) in enumerate(zip(fs.outputs, qs.outputs)):
        if 0 <= b < len(qs.tensors) and qs.tensors[b].type != fs.tensors[a].type:
          if fs.tensors[a].type != F32 or io['OUTPUT'] in ('NQ', None):
            fails.append(ctx.fail(
                'output_dtype', f'sg{si} output {k} {fs.tensors[a].name}: '
                f'{fbparse.TN[fs.tensors[a].type]} -> '
                f'{fbparse.TN[qs.tensors[b].type]} although no rule covers OUTPUT'))
  for kind, detail in skeleton.signatures(fm, qm):
    fails.append(ctx.fail(kind, detail))
  return fails


def run_case(case, note, skip):
  return common.run_graph_case(PROP, case, note, skip,
                               c01.PLANS[case.get('rp', 'small')], oracle)
