"""C10 - calibration and quantization select the same ops; stats never missing."""
import copy
import re

import numpy as np

from vf import env, fbparse, findings, ir as irm, modes as md, skeleton

PROP = 'C10'
T = fbparse.T
OPS = [('FULLY_CONNECTED', 'bias'), ('TANH', ''), ('ADD', 'tc'),
       ('RESHAPE', 'same'), ('SPLIT', 'last'), ('CONV_2D', '1x1'),
       ('CONCATENATION', 'ax0'), ('GELU', '')]
MISSING = (r'not found in tensor_name_to_qsv', r'min and max must be provided',
           r'QSVs\) are required')


def chain(op1, op2, prefix=''):
  """x -> ABS -> OP1 -> ABS -> OP2 -> ABS ; unsupported separators make every
  supported operator's tensors private.  Returns (ops, target op indices)."""
  ops = [irm.op('ABS', '', [0])]
  h = 1
  targets = []
  for t, v in (op1, op2):
    ar = irm.arity(t, v)
    ops.append(irm.op(t, v, [h] * ar))
    targets.append(len(ops) - 1)
    if t == 'SPLIT':
      ops.append(irm.op('ABS', '', [h + 1]))
      ops.append(irm.op('ABS', '', [h + 2]))   # sink: keeps out1 private
      h = h + 3
    else:
      ops.append(irm.op('ABS', '', [h + 1]))
      h = h + 2
  return ops, targets


def regexes(built, meta):
  names = [built.tname(0, t) for t in meta.outs]
  n = names[0]
  e = re.escape(n)
  out = ['.*', e, '^' + e + '$', e + '$', '^' + re.escape(n[:3]), e + ';', ';',
         'zzz_no_match', '^' + e + ';$']
  if len(names) > 1:
    out += [e + ';' + re.escape(names[1]), e + re.escape(names[1]),
            re.escape(names[1]) + '$']
  return out


def cases(tier):
  for style in ('plain', 'semi', 'colon'):
    for a in OPS:
      for b in OPS:
        ops, targets = chain(a, b)
        yield {'ir': {'subgraphs': [{'ops': ops, 'exports': []}],
                      'names': style}, 'targets': targets}
  # two signatures: chains in two subgraphs
  for a in OPS[:4]:
    for b in OPS[:4]:
      o0, t0 = chain(a, ('TANH', ''))
      o1, t1 = chain(b, ('FULLY_CONNECTED', 'bias'))
      for rev in (False, True):
        mir = {'subgraphs': [{'ops': o0, 'exports': []},
                             {'ops': o1, 'exports': [], 'prefix': 'b_',
                              'key': 'sig1'}]}
        if rev:
          mir['sigdefs'] = 'rev'
        yield {'ir': mir, 'targets': t0, 'multi': True, 'targets1': t1}


def plan(tier, seed):
  return {
      'cases': cases(tier), 'chunk': 2,
      'budget_s': 285 if tier == 'quick' else 2400,
      'rule': ('E1 with a regex alphabet: chains x->ABS->OP1->ABS->OP2->ABS '
               '(OP over 7 supported operators incl. the multi-output SPLIT), '
               'tensor names with "/", ";" and ":", single- and two-signature '
               'models x regexes {.*, full name, ^name$, name$, ^prefix, name;, '
               ';, out0;out1, no match, ...} x op selector {specific, *} x '
               '{SRQ8a, SRQ16}; oracle: the set of operators that received '
               'statistics == the set quantized in the output, and '
               'calibrate()->quantize() never fails for missing statistics, per '
               'signature. non-trivial = cases where at least one operator was '
               'selected'),
      'bounds': {'ops': OPS, 'value_pool': seed % 4},
      'exhaustive': True,
  }


def _f(kind, detail, sub, facts=None, group=''):
  return findings.fail(PROP, kind, detail, sub, facts or {}, group or kind)


def selected_sets(built, cal, qmodel, si, targets):
  """(ops with statistics, ops quantized) among the target operators and the
  virtual INPUT operator (the graph input feeds only an unsupported op, so its
  statistics and its dtype are private to INPUT)."""
  fm, qm = fbparse.parse(built.model), fbparse.parse(qmodel)
  sm = skeleton.extract(fm, qm, si)
  cal_sel, q_sel = set(), set()
  for _, t, kind in built.inputs[si]:
    if kind != 'x':
      continue
    name = built.tname(si, t)
    if name in cal and cal[name]:
      cal_sel.add('INPUT')
    if qm.subs[si].tensors[t].type != T.FLOAT32:
      q_sel.add('INPUT')
  for k in targets:
    meta = built.ops[si][k]
    if any(built.tname(si, t) in cal and cal[built.tname(si, t)]
           for t in meta.outs):
      cal_sel.add(k)
    if k in sm.opmap:
      qo = qm.subs[si].ops[sm.opmap[k]]
      if any(qm.subs[si].tensors[t].type != T.FLOAT32 for t in qo.outputs):
        q_sel.add(k)
  return cal_sel, q_sel


def run_case(case, note, skip):
  L = env.lib()
  res = {'evals': 0, 'nontrivial': 0, 'hashes': [], 'fails': [], 'states': 0,
         'transitions': 0, 'traces': 0, 'counts': {}}
  ir = dict(case['ir'])
  ir.setdefault('pool', env.seed() % 4)
  built = irm.build(ir)
  if built is None:
    res['counts']['ill_shaped'] = 1
    return res
  res['states'] = 1
  only = case.get('only')
  nsub = len(built.ops)
  datas = [built.input_data(si, 'mix') for si in range(nsub)]
  tsets = [case['targets']] + ([case['targets1']] if case.get('multi') else [])
  for si0 in range(nsub):
    for tk in tsets[si0][:1]:
      meta = built.ops[si0][tk]
      xname = built.tname(si0, built.inputs[si0][0][1])
      plan_ = [(rg, sel) for rg in regexes_for(built, meta, si0)
               for sel in (meta.type, '*')]
      # rules for the virtual INPUT operator, scoped by the graph input's name
      plan_ += [(rg, 'INPUT') for rg in ('.*', re.escape(xname),
                                         '^' + re.escape(xname),
                                         re.escape(xname) + ';$', 'zzz_no')]
      for rg, sel in plan_:
        for _once in (0,):
          for mode in ('SRQ8a', 'SRQ16'):
            if sel != '*' and not md.supported(sel, mode):
              continue
            sub = f'sg{si0}|{rg}|{sel}|{mode}'
            if only is not None and only != sub:
              continue
            recipe = [md.rule(rg, sel, mode)]
            if mode == 'SRQ16' and sel != '*':
              # a later rule under the SAME regex for an operator the model
              # does not contain (the static-range rule is no longer last)
              recipe.append(md.rule(rg, 'CONV_2D_TRANSPOSE', 'WO8c'))
            res['evals'] += 1
            res['transitions'] += 2
            res['traces'] += 1
            facts = {'regex': rg, 'selector': sel, 'multi': bool(case.get('multi')),
                     'names': ir.get('names', 'plain')}
            try:
              qt = L.quantizer.Quantizer(built.model, copy.deepcopy(recipe))
            except Exception:
              continue
            cal = None
            bad = False
            # calibrate() is called whether or not the recipe needs it (a
            # user cannot know before asking); when nothing needs statistics
            # its answer must still be accepted by quantize()
            if True:
              for si in range(nsub):
                try:
                  cal = qt.calibrate([copy.deepcopy(datas[si])],
                                     signature_key=built.keys[si],
                                     previous_calibration_result=cal)
                except Exception as e:  # pylint: disable=broad-except
                  res['fails'].append(_f(
                      'calibrate_raises', f'{sub} signature {built.keys[si]}: '
                      f'{type(e).__name__}: {e}'[:300], sub, facts,
                      f'calibrate:{type(e).__name__}:multi={facts["multi"]}'))
                  bad = True
                  break
            if bad:
              continue
            try:
              out = bytes(qt.quantize(cal).quantized_model)
            except Exception as e:  # pylint: disable=broad-except
              msg = f'{type(e).__name__}: {e}'
              if any(re.search(p, msg) for p in MISSING):
                res['fails'].append(_f(
                    'missing_statistics', f'{sub}: {msg}'[:300], sub, facts,
                    'missing:' + rg_class(rg)))
              else:
                res['counts']['raised:' + type(e).__name__] = res['counts'].get(
                    'raised:' + type(e).__name__, 0) + 1
              continue
            any_sel = False
            for si in range(nsub):
              cs, qs = selected_sets(built, cal or {}, out, si, tsets[si])
              any_sel = any_sel or bool(cs or qs)
              if cs != qs:
                res['fails'].append(_f(
                    'selection_differs', f'{sub} subgraph {si}: operators with '
                    f'statistics {sorted(map(str, cs))}, operators quantized {sorted(map(str, qs))}',
                    sub, facts, 'selection:' + rg_class(rg)))
            if any_sel:
              res['nontrivial'] += 1
              res['hashes'].append(sub + '|' + str(hash(out) & 0xffffffff))
  res['sample'] = {'ir': ir}
  return res


def rg_class(rg):
  if rg.endswith(';$') or rg.endswith(';'):
    return 'semicolon'
  if rg.endswith('$'):
    return 'end_anchor'
  return 'other'


def regexes_for(built, meta, si):
  names = [built.tname(si, t) for t in meta.outs]
  n = names[0]
  e = re.escape(n)
  out = ['.*', e, '^' + e + '$', e + '$', '^' + re.escape(n[:4]), e + ';', ';',
         'zzz_no_match', '^' + e + ';$']
  if len(names) > 1:
    out += [e + ';' + re.escape(names[1]), e + re.escape(names[1]),
            re.escape(names[1]) + '$']
  return out
