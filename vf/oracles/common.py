"""Shared worker-side driver for the E1 (graph x recipe x data) checks."""
import collections
import traceback

import numpy as np

from vf import env, fbparse, findings, ir as irm, pipeline, universe
from vf import enum_graphs as eg


class Ctx:
  """Everything an oracle may look at for one sub-case."""

  def __init__(self, prop, case, built, subkey, recipe, dkind, data, fout,
               ftens, outcome):
    self.prop, self.case, self.built = prop, case, built
    self.subkey, self.recipe, self.dkind = subkey, recipe, dkind
    self.data, self.fout, self.ftens, self.outcome = data, fout, ftens, outcome
    self._pm = None
    self._fm = None
    self._modes = None

  @property
  def pm(self):
    if self._pm is None:
      self._pm = fbparse.parse(self.outcome.model)
    return self._pm

  @property
  def fm(self):
    # the float model is the same for every sub-case of a graph: parse once
    if self._fm is None:
      fm = getattr(self.built, '_parsed_float', None)
      if fm is None:
        fm = fbparse.parse(self.built.model)
        self.built._parsed_float = fm
      self._fm = fm
    return self._fm

  @property
  def modes(self):
    """(per-op resolved modes, io modes) by the reference recipe model."""
    if self._modes is None:
      self._modes = universe.resolved_modes(self.built, self.recipe)
    return self._modes

  def fail(self, kind, detail, facts=None, group=''):
    return findings.fail(self.prop, kind, detail, self.subkey, facts, group)


def pool_of(case):
  return int(case['ir'].get('pool', env.seed() % 4))


def run_graph_case(prop, case, note, skip, recipe_plan, oracle,
                   data_kinds=('mix',), need_float=True, on_exception=None,
                   on_load_refused=None):
  """Generic E1 worker body.

  oracle(ctx) -> list of failure records (only called when quantize()
  returned).  on_exception(ctx) -> failures for raised exceptions (default:
  none: raising is an allowed outcome).
  """
  res = {'evals': 0, 'nontrivial': 0, 'hashes': [], 'fails': [],
         'counts': collections.Counter(), 'states': 0, 'transitions': 0,
         'traces': 0}
  ir = dict(case['ir'])
  ir.setdefault('pool', env.seed() % 4)
  built = irm.build(ir)
  if built is None:
    res['counts']['ill_shaped_history'] += 1
    return res
  res['states'] = 1
  res['transitions'] = eg.count_events(ir)
  only = case.get('only')
  floats = {}
  for dk in data_kinds:
    try:
      data, fout, finite, ftens = pipeline.float_run(built, dk)
    except Exception as e:
      res['counts'][f'float_run_error:{type(e).__name__}'] += 1
      continue
    # the admission rule (finite float activations) holds for every subgraph
    for si in range(1, len(built.ops)):
      try:
        finite = finite and pipeline.float_run(built, dk, si)[2]
      except Exception:
        finite = False
    if not finite:
      res['counts']['float_nonfinite_skipped'] += 1
      continue
    floats[dk] = (data, fout, ftens)
  if not floats:
    # e.g. RSQRT of a mixed-sign ramp: fall back to the all-positive input
    try:
      data, fout, finite, ftens = pipeline.float_run(built, 'pos')
      if finite:
        floats['pos'] = (data, fout, ftens)
    except Exception:
      pass
  if not floats:
    return res
  plan = recipe_plan(built, case) if callable(recipe_plan) else recipe_plan
  for rkey, recipe in universe.recipes_for(built, plan):
    for dk, (data, fout, ftens) in floats.items():
      subkey = f'{rkey}|d={dk}'
      if only is not None and subkey != only:
        continue
      if subkey in skip:
        continue
      note(subkey)
      multi = None
      if len(built.ops) > 1:
        multi = [(built.keys[0], [data])] + [
            (built.keys[si], [built.input_data(si, dk)])
            for si in range(1, len(built.ops))]
      out = pipeline.quantize(built.model, recipe, [data], built.keys[0],
                              multi=multi)
      res['evals'] += 1
      res['transitions'] += 1
      ctx = Ctx(prop, case, built, subkey, recipe, dk, data, fout, ftens, out)
      if out.stage == 'load':
        res['counts']['refused_at_load'] += 1
        if on_load_refused is not None:
          res['fails'].extend(on_load_refused(ctx) or ())
        continue
      if not out.returned:
        res['counts']['raised:' + out.exc_key()] += 1
        if on_exception is not None:
          res['fails'].extend(on_exception(ctx) or ())
        continue
      res['counts']['returned'] += 1
      res['traces'] += 1
      if out.model != built.model:
        res['nontrivial'] += 1
        res['hashes'].append(pipeline.sha(out.model))
      try:
        fails = oracle(ctx) or []
      except Exception as e:
        tb = ''.join(traceback.format_exception(type(e), e, e.__traceback__))
        fails = [ctx.fail('oracle_exception',
                          'the oracle could not examine the returned model: '
                          + tb[-800:])]
      # known-finding hits are only counted (with one example per finding):
      # there can be hundreds of thousands of them
      for f_ in fails:
        fid = f_.get('finding')
        if fid:
          kf = res.setdefault('kf', {})
          if fid not in kf:
            kf[fid] = [0, {'sub': f_.get('sub'), 'detail': f_.get('detail')}]
          kf[fid][0] += 1
        else:
          res['fails'].append(f_)
      if hasattr(ctx, 'margin') and not fails:
        # how much of the fixed-fraction allowance was used (tenths)
        res['counts']['allowance_used<=%.1f' % (
            min(1.0, int(ctx.margin * 10 + 0.999) / 10.0))] += 1
      if 'sample' not in res:
        res['sample'] = {'ir': ir, 'sub': subkey,
                         'outcome': 'returned', 'n_failures': len(fails)}
  res['counts'] = dict(res['counts'])
  return res
