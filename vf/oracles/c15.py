"""C15 - shared constants are quantized consistently or the request is rejected."""
import copy
import itertools

import numpy as np

from vf import env, fbparse, findings, ir as irm, lite, modes as md
from vf import ref_mode, skeleton, universe

PROP = 'C15'
T = fbparse.T
TN = fbparse.TN
BO = fbparse.BO
PAIRS = [(('FULLY_CONNECTED', 'bias'), ('FULLY_CONNECTED', 'nobias')),
         (('CONV_2D', '1x1'), ('CONV_2D', '1x1')),
         (('FULLY_CONNECTED', 'bias'), ('EMBEDDING_LOOKUP', 'w4')),
         (('EMBEDDING_LOOKUP', 'w4'), ('FULLY_CONNECTED', 'bias')),
         (('ADD', 'tc'), ('MUL', 'tc')),
         (('ADD', 'tc'), ('ADD', 'tc')),
         (('EMBEDDING_LOOKUP', 'w4'), ('EMBEDDING_LOOKUP', 'w4')),
         # the second sharer is an operator the quantizer does not know
         (('ADD', 'tc'), ('MAXIMUM', 'tc')),
         (('MUL', 'tc'), ('MAXIMUM', 'tc'))]
MODES_Q = ['NQ', 'SRQ8a', 'SRQ16', 'SRQ8w4', 'DRQ8c', 'DRQ8t', 'DRQ4c', 'WO8c',
           'WO8a', 'WO4c', 'FP16']


def mk(t, v, **kw):
  ar = irm.arity(t, v)
  return irm.op(t, v, [0] * ar, **kw)


def cases(tier):
  modes = md.MODE12
  for (a, b) in PAIRS:
    for how in ('tensor', 'buffer'):
      yield {'ir': {'subgraphs': [{'ops': [mk(*a), mk(*b, share=[how, 0, 0])],
                                   'exports': []}]}, 'modes': modes}
    # across two subgraphs (weights shared between signatures); second form:
    # the tied constants also carry the same NAME in both subgraphs
    for cp in (None, 'k_'):
      s0 = {'ops': [mk(*a)], 'exports': []}
      s1 = {'ops': [mk(*b, share=['buffer', 0, 0])], 'exports': [],
            'prefix': 'b_', 'key': 'sig1'}
      if cp:
        s0['cprefix'] = cp
        s1['cprefix'] = cp
      yield {'ir': {'subgraphs': [s0, s1]},
             'modes': modes if cp is None else ['NQ', 'DRQ8c', 'WO8c', 'SRQ8a']}
  if True:
    for (a, b) in PAIRS:
      for how in ('tensor', 'buffer'):
        yield {'ir': {'subgraphs': [{'ops': [
            mk(*a), mk(*b, share=[how, 0, 0]), mk(*a, share=[how, 0, 0])],
            'exports': []}]},
            'modes': (md.MODE12 if tier == 'thorough' else
                      ['NQ', 'SRQ8a', 'SRQ16', 'DRQ8c', 'DRQ4c', 'WO8c', 'FP16'])}


def plan(tier, seed):
  return {
      'cases': cases(tier), 'chunk': 1,
      'budget_s': 285 if tier == 'quick' else 2400,
      'rule': ('E1 with sharing events: one constant tensor with 2-3 consumers, '
               'two tensors on one buffer in one subgraph, and across two '
               'subgraphs/signatures x sharer types {FC, CONV_2D, '
               'EMBEDDING_LOOKUP (weight tying with FC), ADD/MUL constants} x '
               'ALL tuples of modes over the mode alphabet; oracle per shared '
               'buffer: every referencing tensor\'s dtype implies the stored '
               'byte length, decodes to within one step of the original, all '
               'referrers agree on dtype and parameters, and every consumer '
               'reads the dtype its mode requires (no float consumer on integer '
               'bytes). quantize() raising is allowed. non-trivial = returned '
               'model whose shared buffer was rewritten'),
      'bounds': {'pairs': PAIRS, 'value_pool': seed % 4},
      'alphabet': {'modes': MODES_Q if tier == 'quick' else md.MODE12},
      'exhaustive': True,
  }


def _f(kind, detail, sub, facts=None, group=''):
  return findings.fail(PROP, kind, detail, sub, facts or {}, group or kind)


def run_case(case, note, skip):
  L = env.lib()
  res = {'evals': 0, 'nontrivial': 0, 'hashes': [], 'fails': [], 'states': 0,
         'transitions': 0, 'traces': 0, 'counts': {}}
  cnt = res['counts']
  ir = dict(case['ir'])
  ir.setdefault('pool', env.seed() % 4)
  built = irm.build(ir)
  if built is None:
    cnt['ill_shaped'] = 1
    return res
  res['states'] = 1
  only = case.get('only')
  nsub = len(built.ops)
  datas = [built.input_data(si, 'mix') for si in range(nsub)]
  metas = built.all_ops()
  fm = fbparse.parse(built.model)
  # the shared buffers of the float model
  users = {}
  for si, sg in enumerate(fm.subs):
    for t in sg.tensors:
      if fm.buffers[t.buffer] is not None and t.type == T.FLOAT32:
        users.setdefault(t.buffer, []).append((si, t.index))
  consumers = {}
  for m in metas:
    for pos, ti in enumerate(m.ins):
      if ti != -1:
        consumers.setdefault((m.sub, ti), []).append((m, pos))
  shared = {b: u for b, u in users.items()
            if len(u) > 1 or len(consumers.get(u[0], [])) > 1}
  choices = [[mo for mo in case['modes'] if md.supported(m.type, mo)]
             if m.type in irm.SUPPORTED else ['NQ'] for m in metas]
  for assign in itertools.product(*choices):
    sub = ','.join(assign)
    if only is not None and only != sub:
      continue
    recipe = []
    for m, mo in zip(metas, assign):
      if m.type in irm.SUPPORTED:
        recipe.append(md.rule(md.op_regex(built, m), m.type, mo))
    if not recipe:
      continue
    res['evals'] += 1
    res['transitions'] += 1
    try:
      qt = L.quantizer.Quantizer(built.model, copy.deepcopy(recipe))
      cal = None
      if qt.need_calibration:
        for si in range(nsub):
          cal = qt.calibrate([copy.deepcopy(datas[si])], built.keys[si], cal)
      out = bytes(qt.quantize(cal).quantized_model)
    except Exception as e:  # raising is allowed
      k = 'raised:' + type(e).__name__
      cnt[k] = cnt.get(k, 0) + 1
      continue
    cnt['returned'] = cnt.get('returned', 0) + 1
    res['traces'] += 1
    qm = fbparse.parse(out)
    facts = {'assign': list(assign), 'types': [m.type for m in metas]}
    grp = '|'.join(sorted(set(md.kind(a) for a in assign)))
    fails = []
    maps = [skeleton.extract(fm, qm, si) for si in range(nsub)]
    rewritten = False
    for buf, us in shared.items():
      orig = np.frombuffer(fm.buffers[buf], dtype=np.float32).astype(np.float64)
      sigs = set()
      for si, ti in us:
        qt_ = qm.subs[si].tensors[ti]
        raw = qm.tensor_bytes(qt_)
        who = f'buffer {buf} via {qt_.name} ({TN[qt_.type]})'
        want = fbparse.expected_nbytes(qt_.type, qt_.shape)
        if raw is None or len(raw) != want:
          fails.append(_f('length_mismatch', f'{sub}: {who}: '
                          f'{None if raw is None else len(raw)} bytes stored, '
                          f'dtype/shape imply {want}', sub, facts, grp))
          continue
        sigs.add((qt_.type, qt_.buffer,
                  None if not qt_.quantized() else
                  (tuple(qt_.scale), tuple(qt_.zp), qt_.qdim if
                   len(qt_.scale) > 1 else 0)))
        if qt_.type != T.FLOAT32:
          rewritten = True
        v = fbparse.decode_constant(qm, qt_)
        if v is None:
          fails.append(_f('undecodable', who, sub, facts, grp))
          continue
        v = v.ravel()
        if qt_.type == T.FLOAT32:
          ok = np.array_equal(v, orig)
        elif qt_.type == T.FLOAT16:
          ok = np.array_equal(v, orig.astype(np.float32).astype(
              np.float16).astype(np.float64))
        else:
          sc = qt_.scale
          if len(sc) > 1:
            sh = [1] * len(qt_.shape)
            sh[qt_.qdim] = -1
            sc = np.broadcast_to(sc.reshape(sh), qt_.shape).ravel()
          bits = {T.INT4: 4, T.INT8: 8, T.INT16: 16}.get(qt_.type, 32)
          ok = bool(np.all(np.abs(v - orig) <=
                           sc * (1.0001 + 2.0 ** (bits - 21))))
        if not ok:
          fails.append(_f('value_mismatch', f'{sub}: {who} does not decode to '
                          'the original constant within one step', sub, facts,
                          grp))
      if len(set(s[0] for s in sigs)) > 1 or len(set(s[2] for s in sigs)) > 1:
        if len(set(s[1] for s in sigs)) == 1:
          fails.append(_f('referrers_disagree', f'{sub}: tensors on buffer '
                          f'{buf} carry different dtype/parameters: '
                          f'{sorted(TN[s[0]] for s in sigs)}', sub, facts, grp))
    # every sharer reads the dtype its mode requires
    for m, mo in zip(metas, assign):
      sm = maps[m.sub]
      if m.index not in sm.opmap:
        fails.append(_f('skeleton_broken', sub, sub, facts, grp))
        continue
      qs = qm.subs[m.sub]
      fo = fm.subs[m.sub].ops[m.index]
      qo = qs.ops[sm.opmap[m.index]]
      for pos, (fi, qi) in enumerate(zip(fo.inputs, qo.inputs)):
        if fi == -1:
          continue
        ft = fm.subs[m.sub].tensors[fi]
        if fm.buffers[ft.buffer] is None or ft.buffer not in shared:
          continue
        role = m.roles[pos]
        exp = ref_mode.expected_operand_dtype(role, m.type, mo, True, ft.type)
        got = qs.tensors[qi].type
        if got != exp:
          fails.append(_f(
              'consumer_dtype', f'{sub}: {m.type}[{mo}] operand {pos} reads '
              f'{TN[got]}, its mode requires {TN[exp]}', sub, facts, grp))
    # a model that passes the structural clauses must also load
    if not fails:
      try:
        for si in range(nsub):
          lite.run_signature(out, datas[si], built.keys[si])
      except Exception as e:  # pylint: disable=broad-except
        fails.append(_f('runtime_error', f'{sub}: {type(e).__name__}: {e}'[:300],
                        sub, facts, grp))
    res['fails'].extend(fails)
    if rewritten:
      res['nontrivial'] += 1
      res['hashes'].append(str(hash(out) & 0xffffffffffff))
  res['sample'] = {'ir': ir}
  return res
