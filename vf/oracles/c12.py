"""C12 - a saved recipe reloads to the same rules and reproduces the model."""
import copy
import glob
import json
import os
import shutil
import tempfile

from vf import env, findings, ir as irm, recipe_space as rs

PROP = 'C12'
_models = None


def models():
  """Three fixed float models + a calibration result covering every tensor."""
  global _models
  if _models is None:
    L = env.lib()
    out = []
    specs = [
        ('', [irm.op('RESHAPE', 'same'), irm.op('FULLY_CONNECTED', 'bias', [1])]),
        ('b_', [irm.op('TANH'), irm.op('FULLY_CONNECTED', 'bias', [1]),
                irm.op('SOFTMAX', '', [2])]),
        ('', [irm.op('FULLY_CONNECTED', 'nobias'),
              irm.op('CONCATENATION', 'ax0', [0, 0]),
              irm.op('EMBEDDING_LOOKUP', 'w4', [])]),
    ]
    from vf import modes
    specs.append(('a_', [irm.op('FULLY_CONNECTED', 'bias_relu')], 'R3'))
    for spec_ in specs:
      prefix, ops = spec_[0], spec_[1]
      ir = {'subgraphs': [{'ops': ops, 'exports': [], 'prefix': prefix}],
            'pool': 0}
      if len(spec_) > 2:
        ir['x'] = spec_[2]
      b = irm.build(ir)
      qt = L.quantizer.Quantizer(b.model, [modes.rule('.*', '*', 'SRQ8a')])
      cal = qt.calibrate([b.input_data(0, 'mix')])
      out.append((b.model, cal))
    _models = out
  return _models


def plan(tier, seed):
  evs = rs.events(tier, blk=True)
  depth = 3 if tier == 'quick' else 4
  cases = [{'first': i, 'depth': 3, 'tier': tier} for i in range(len(evs))]
  if tier == 'thorough':
    cases = [{'first': i, 'depth': 4, 'tier': 'quick'}
             for i in range(len(rs.events('quick', blk=True)))] + cases
  cases.append({'files': True, 'tier': tier})
  return {
      'cases': cases, 'chunk': 1,
      'budget_s': 280 if tier == 'quick' else 3300,
      'rule': ('E2 (state space of C11): at every reachable recipe state the '
               'exported recipe, after a JSON round trip, is loaded into a '
               'fresh Quantizer: no exception, equal re-export, equal 31-entry '
               'resolution table; for states at depth <= 2 three fixed models '
               'x a fixed calibration result quantize to byte-identical output '
               'from the original and the reloaded recipe (also through '
               'QuantizationResult.save() and the recipe file on disk); every '
               'file under recipes/ loads and the five default files re-export '
               'to themselves. non-trivial = distinct canonical recipe states'),
      'bounds': {'depth': depth, 'events': len(evs), 'bytes_depth': 2},
      'alphabet': {'events': [e['label'] for e in evs]},
      'exhaustive': True,
  }


def _f(kind, detail, sub, facts=None):
  return findings.fail(PROP, kind, detail, sub, facts or {}, group=kind)


def _quant(qt, cal):
  try:
    # as a user would: statistics only when the recipe asks for them (with
    # statistics present, constants never take the compute-on-the-spot path)
    arg = copy.deepcopy(cal) if qt.need_calibration else None
    return ('ok', bytes(qt.quantize(arg).quantized_model))
  except Exception as e:  # pylint: disable=broad-except
    return ('exc', type(e).__name__)


def make_visit(evs_by_label, depth_bytes=2):
  L = env.lib()

  def visit(labels, impl, ref, before, exc, refused, sub):
    out = []
    if exc is not None:
      return out
    rec = impl.recipe()                       # JSON round trip included
    try:
      fresh = L.quantizer.Quantizer(b'x', copy.deepcopy(rec))
    except Exception as e:  # pylint: disable=broad-except
      return [_f('reload_raises', f'[{sub}]: {type(e).__name__}: {e} ; recipe '
                 f'{json.dumps(rec)[:300]}', sub)]
    rec2 = json.loads(json.dumps(fresh.get_quantization_recipe()))
    if rec2 != rec:
      out.append(_f('reexport_differs', f'[{sub}]: {json.dumps(rec)[:300]} -> '
                    f'{json.dumps(rec2)[:300]}', sub))
    f2 = rs.Impl()
    f2.qt = fresh
    if rs.table(f2) != rs.table(impl):
      out.append(_f('resolution_differs_after_reload', f'[{sub}]', sub))
    if len(labels) <= depth_bytes and rec:
      for mi, (model, cal) in enumerate(models()):
        a = L.quantizer.Quantizer(model)
        for lb in labels:
          ev = evs_by_label[lb]
          ia = rs.Impl()
          ia.qt = a
          ia.apply(ev)
        b = L.quantizer.Quantizer(model, copy.deepcopy(rec))
        ra, rb = _quant(a, cal), _quant(b, cal)
        if ra != rb:
          out.append(_f('bytes_differ_after_reload',
                        f'[{sub}] model {mi}: original {ra[0]} reloaded {rb[0]}',
                        sub))
        if len(labels) == 2 and mi == 0:
          # save, change the recipe, save again under the same name: the second
          # save must be refused and the files on disk must still belong
          # together (recipe next to the model reproduces that model)
          d = tempfile.mkdtemp(prefix='verif_c12_')
          try:
            q = L.quantizer.Quantizer(model)
            ia = rs.Impl()
            ia.qt = q
            ia.apply(evs_by_label[labels[0]])
            r1 = _quant(q, cal)
            if r1[0] == 'ok':
              q._result.save(d, 'm')
              ia.apply(evs_by_label[labels[1]])
              r2 = _quant(q, cal)
              if r2[0] == 'ok':
                try:
                  q._result.save(d, 'm')
                  out.append(_f('second_save_not_refused', f'[{sub}]', sub))
                except FileExistsError:
                  pass
                on_disk = open(os.path.join(d, 'm.tflite'), 'rb').read()
                c = L.quantizer.Quantizer(model, os.path.join(d, 'm_recipe.json'))
                rc = _quant(c, cal)
                if rc != ('ok', on_disk):
                  out.append(_f('saved_recipe_does_not_match_saved_model',
                                f'[{sub}]', sub))
          except Exception as e:  # pylint: disable=broad-except
            out.append(_f('saved_recipe_unusable',
                          f'[{sub}]: {type(e).__name__}: {e}'[:300], sub))
          finally:
            shutil.rmtree(d, ignore_errors=True)
        if len(labels) == 1 and ra[0] == 'ok' and mi == 0:
          d = tempfile.mkdtemp(prefix='verif_c12_')
          try:
            a._result.save(d, 'm')
            c = L.quantizer.Quantizer(model, os.path.join(d, 'm_recipe.json'))
            rc = _quant(c, cal)
            if rc != ra:
              out.append(_f('bytes_differ_after_save', f'[{sub}]', sub))
            # the float model given as a file path instead of bytes
            fp = os.path.join(d, 'float.tflite')
            with open(fp, 'wb') as fh:
              fh.write(model)
            c = L.quantizer.Quantizer(fp, os.path.join(d, 'm_recipe.json'))
            rc = _quant(c, cal)
            if rc != ra:
              out.append(_f('bytes_differ_model_from_path', f'[{sub}]', sub))
          except Exception as e:  # pylint: disable=broad-except
            out.append(_f('saved_recipe_unusable',
                          f'[{sub}]: {type(e).__name__}: {e}'[:300], sub))
          finally:
            shutil.rmtree(d, ignore_errors=True)
    return out
  return visit


def check_files(res):
  L = env.lib()
  out = []
  d = os.path.join(env.REPO, 'ai_edge_quantizer', 'recipes')
  for f in sorted(glob.glob(os.path.join(d, '*.json'))):
    name = os.path.basename(f)
    res['evals'] += 1
    res['states'] += 1
    try:
      qt = L.quantizer.Quantizer(b'x', f)
    except Exception as e:  # pylint: disable=broad-except
      out.append(_f('shipped_recipe_does_not_load',
                    f'{name}: {type(e).__name__}: {e}'[:300], f'file:{name}',
                    {'file': name}))
      continue
    if name.startswith('default_') or name.startswith('dynamic_'):
      want = json.load(open(f))
      got = json.loads(json.dumps(qt.get_quantization_recipe()))
      if got != want:
        out.append(_f('shipped_recipe_reexport', name, f'file:{name}',
                      {'file': name}))
  return out


def run_case(case, note, skip):
  res = {'evals': 0, 'nontrivial': 0, 'hashes': [], 'fails': [], 'states': 0,
         'transitions': 0, 'traces': 0, 'counts': {}}
  only = case.get('only')
  if case.get('files'):
    fs = check_files(res)
    res['fails'] = [f for f in fs if only is None or f['sub'] == only]
    res['traces'] = res['evals']
    res['transitions'] = res['evals']
    return res
  evs = rs.events(case['tier'], blk=True)
  by_label = {e['label']: e for e in evs}
  fails, tables = rs.explore(case['first'], case['depth'], evs,
                             make_visit(by_label), res, only)
  for f in fails:
    if isinstance(f, tuple):
      continue  # revisit agreement is C11's clause
    if only is None or f['sub'] == only:
      res['fails'].append(f)
  res['traces'] = res['evals']
  res['merge'] = tables
  res['hashes'] = list(tables.keys())
  res['nontrivial'] = len(tables)
  res['sample'] = {'history': [evs[case['first']]['label']],
                   'depth': case['depth']}
  return res


def coverage_extra(agg):
  return {'states': max(1, len(agg.merged))}
