"""C18 - validate() reports the true per-tensor error, once per tensor."""
import copy

import numpy as np

from vf import enum_graphs as eg
from vf import env, fbparse, ir as irm, lite, modes as md, universe
from vf.oracles import common

PROP = 'C18'
T = fbparse.T
PLAN_12 = {'shipped': True,
           'uniform': ['SRQ8s', 'SRQ8w4', 'DRQ4c', 'WO4a', 'WO8c', 'FP16'],
           'io': ['none']}
PLAN_3 = {'shipped': True, 'uniform': [], 'io': ['none']}
PLANS = {'p12': PLAN_12, 'p3': PLAN_3}
METRICS = ['mse', 'median_diff_ratio']


def cases(tier):
  yield {'laws': True}
  yield from universe.multi_cases(
      eg.TTOPO + ['CONV_2D', 'EMBEDDING_LOOKUP', 'MUL'], {'rp': 'p3', 'nd': 2})
  yield from universe.graph_cases([(1, eg.T21 + eg.U, 'allx', 'none')],
                                  {'rp': 'p12', 'nd': 3})
  yield from universe.graph_cases(
      [(2, eg.T21 + eg.U, 'first', 'one')], {'rp': 'p12', 'nd': 1},
      sigrev=(tier == 'thorough'))
  yield from universe.graph_cases([(3, eg.TTOPO, 'first', 'none')],
                                  {'rp': 'p3', 'nd': 1})
  if tier == 'quick':
    # signature/IO listing variants (reversed lists, the same tensor returned
    # under two output names) on a small core; the thorough tier has them for
    # every two-operator graph
    for c in universe.graph_cases([(2, eg.TCORE, 'first', 'one')],
                                  {'rp': 'p3', 'nd': 1}, sigrev=True):
      if any(sg.get(k) for sg in c['ir']['subgraphs']
             for k in ('sigorder', 'ioorder', 'dupout', 'xout')):
        yield c


def plan(tier, seed):
  return {
      'cases': cases(tier), 'chunk': 8,
      'budget_s': 285 if tier == 'quick' else 3300,
      'rule': ('E1: graph histories (all ops/variants at depth 1, all pairs at '
               'depth 2, representatives at depth 3) x shipped recipes and '
               'uniform modes incl. int4 and float16 tensors x datasets of 1-2 '
               'inputs x both metrics: the names reported == the named tensors '
               'of the reference model\'s main subgraph that also exist in the '
               'quantized model, each in exactly one group decided by my own '
               'reading of the reference model; each value == the metric '
               'recomputed from my own two interpreter runs / independent '
               'decode of constants (mean over samples); comparing a model with '
               'itself gives 0 everywhere; metric laws hold on the tensor pairs '
               'seen. non-trivial = returned quantized model differing from the '
               'float model'),
      'bounds': {'value_pool': seed % 4, 'metrics': METRICS},
      'alphabet': {'T21+U': eg.T21 + eg.U, 'Ttopo': eg.TTOPO,
                   'recipe_plans': PLANS},
  }


def recipe_plan(built, case):
  return PLANS[case.get('rp', 'p12')]


def _deq(v, det):
  qp = det['quantization_parameters']
  sc = np.asarray(qp['scales'], dtype=np.float64)
  if not len(sc) or not np.issubdtype(v.dtype, np.integer):
    return np.asarray(v, dtype=np.float64)
  zp = np.asarray(qp['zero_points'], dtype=np.float64)
  if len(sc) > 1:
    sh = [1] * v.ndim
    sh[qp['quantized_dimension']] = -1
    sc, zp = sc.reshape(sh), zp.reshape(sh)
  return (v.astype(np.float64) - zp) * sc


def _clean(a):
  a = np.asarray(a, dtype=np.float32).ravel()
  return np.nan_to_num(a, nan=1e-9, neginf=-1e9, posinf=1e9)


def metric(name, target, ref):
  a, b = _clean(target), _clean(ref)
  if a.size == 0:
    return 0.0
  if name == 'mse':
    return float(np.mean(np.square(a - b)))
  return float(np.median(np.abs(a - b) / (np.abs(b) + 1e-6)))


def my_tensors(model, pm, data, key, si):
  """name -> float64 contents: interpreter reads for runtime tensors,
  independent decode of the flatbuffer bytes for constants."""
  _, it = lite.run_signature(model, data, key)
  tens = lite.all_tensors(it, si)
  out = {}
  for t in pm.subs[si].tensors:
    if not t.name:
      continue
    if pm.tensor_bytes(t) is not None:
      v = fbparse.decode_constant(pm, t)
      if v is not None:
        out[t.name] = v
        continue
    if t.name in tens:
      v, det = tens[t.name]
      if v.dtype == object:
        continue
      out[t.name] = _deq(v, det)
  return out


def oracle(ctx):
  fails = []
  # a quantized model that LiteRT cannot run is C01's subject: no claim here
  try:
    for sj in range(len(ctx.built.ops)):
      lite.run_signature(ctx.outcome.model, ctx.built.input_data(sj, ctx.dkind),
                         ctx.built.keys[sj])
  except Exception:
    return fails
  for si in range(len(ctx.built.ops)):
    fails.extend(_oracle_sig(ctx, si))
  return fails


def _oracle_sig(ctx, si):
  fails = []
  built = ctx.built
  fm, qm = ctx.fm, ctx.pm
  key = built.keys[si]
  nd = ctx.case.get('nd', 1)
  kinds = [ctx.dkind] + (['alt'] if nd > 1 else []) + (['pos'] if nd > 2 else [])
  dataset = [built.input_data(si, k) for k in kinds]
  fs = fm.subs[si]
  in_names = {fs.tensors[t].name for t in fs.inputs}
  out_names = {fs.tensors[t].name for t in fs.outputs}
  const_names = {t.name for t in fs.tensors
                 if fm.buffers[t.buffer] is not None and fbparse.nelems(t.shape)}
  qnames = {t.name for t in qm.subs[si].tensors}
  want_names = {t.name for t in fs.tensors if t.name} & qnames
  try:
    mine_f = [my_tensors(built.model, fm, d, key, si) for d in dataset]
    mine_q = [my_tensors(ctx.outcome.model, qm, d, key, si) for d in dataset]
  except Exception:
    return fails   # the quantized model does not run: C01's subject
  for mname in METRICS:
    sub_facts = {'metric': mname,
                 'qtypes': sorted({fbparse.TN[t.type] for t in qm.subs[si].tensors})}
    try:
      # every signature in ONE call, with a different number of samples each
      test_data = {}
      for sj in range(len(built.ops)):
        kj = kinds if sj == si else (kinds + ['neg'])[:len(kinds) + 1 - (sj % 2)]
        test_data[built.keys[sj]] = [built.input_data(sj, k) for k in kj]
      test_data[key] = copy.deepcopy(dataset)
      cr = ctx.outcome.qt.validate(test_data, mname)
      r = cr.get_signature_comparison_result(key)
    except Exception as e:
      fails.append(ctx.fail('validate_raises', f'{mname}: {type(e).__name__}: '
                            f'{e}'[:300], sub_facts, f'raises:{type(e).__name__}'))
      continue
    # reading the flat view (as save() does) must not change the grouped one
    before = [dict(r.input_tensors), dict(r.output_tensors),
              dict(r.constant_tensors), dict(r.intermediate_tensors)]
    flat1 = dict(cr.get_all_tensor_results())
    flat2 = dict(cr.get_all_tensor_results())
    r = cr.get_signature_comparison_result(key)
    after = [dict(r.input_tensors), dict(r.output_tensors),
             dict(r.constant_tensors), dict(r.intermediate_tensors)]
    if before != after or flat1 != flat2:
      fails.append(ctx.fail('result_changed_by_reading_it', f'{mname}: groups '
                            'differ after get_all_tensor_results()', sub_facts,
                            'aliasing'))
    groups = {'inputs': r.input_tensors, 'outputs': r.output_tensors,
              'constants': r.constant_tensors,
              'intermediates': r.intermediate_tensors}
    seen = {}
    for g, dct in groups.items():
      for n in dct:
        if n in seen:
          fails.append(ctx.fail('reported_twice', f'{mname}: {n} in {seen[n]} '
                                f'and {g}', sub_facts, 'twice'))
        seen[n] = g
    # runtime-created temporaries (e.g. BatchMatMul_scratch_buffer) may appear
    # in addition; the property only requires the model's own tensors
    if want_names - set(seen):
      fails.append(ctx.fail(
          'name_set', f'{mname}: missing {sorted(want_names - set(seen))[:4]}',
          sub_facts, 'names'))
    for n, g in seen.items():
      exp = ('inputs' if n in in_names else 'outputs' if n in out_names else
             'constants' if n in const_names else 'intermediates')
      if g != exp and n in want_names:
        fails.append(ctx.fail('wrong_group', f'{mname}: {n} filed under {g}, '
                              f'is one of the {exp}', sub_facts, f'{g}->{exp}'))
      if n not in mine_f[0] or n not in mine_q[0]:
        continue
      vals = [metric(mname, mq[n], mf[n]) for mq, mf in zip(mine_q, mine_f)]
      want = float(np.mean(vals))
      got = float(groups[g][n])
      if not np.isclose(got, want, rtol=2e-4, atol=1e-9 + 1e-6 * abs(want)):
        qt_ = [t for t in qm.subs[si].tensors if t.name == n][0]
        fails.append(ctx.fail(
            'metric_value', f'{mname}: {n} ({fbparse.TN[qt_.type]}) reported '
            f'{got:.6g}, recomputed {want:.6g}',
            dict(sub_facts, ttype=fbparse.TN[qt_.type], group=g),
            f'{mname}:{fbparse.TN[qt_.type]}:{g}'))
      if got < 0:
        fails.append(ctx.fail('metric_negative', f'{mname}: {n} = {got}',
                              sub_facts, 'negative'))
    # metric laws on the tensor pairs seen
    vf = env.lib()
    from ai_edge_quantizer.utils import validation_utils
    fn = validation_utils.get_validation_func(mname)
    for n in list(seen)[:6]:
      if n in mine_f[0] and n in mine_q[0]:
        a, b = mine_q[0][n], mine_f[0][n]
        if float(fn(a, a)) != 0.0 or float(fn(b, b)) != 0.0:
          fails.append(ctx.fail('metric_not_zero_on_equal', f'{mname}: {n}',
                                sub_facts, 'law'))
        if mname == 'mse' and not np.isclose(float(fn(a, b)), float(fn(b, a)),
                                             rtol=1e-6, atol=0):
          fails.append(ctx.fail('mse_not_symmetric', f'{n}', sub_facts, 'law'))
  # a model compared with itself
  from ai_edge_quantizer import model_validator
  from ai_edge_quantizer.utils import validation_utils
  for model, label in ((built.model, 'float'), (ctx.outcome.model, 'quantized')):
    try:
      cr = model_validator.compare_model(
          model, model, {key: copy.deepcopy(dataset)}, 'mse',
          validation_utils.get_validation_func('mse'))
      allv = cr.get_all_tensor_results()
      pmx = fm if label == 'float' else qm
      names = {t.name for t in pmx.subs[si].tensors if t.name}
      bad = {n: v for n, v in allv.items() if v != 0 and n in names}
      if bad:
        fails.append(ctx.fail('self_comparison_nonzero',
                              f'{label}: {list(bad.items())[:3]}', {}, 'self'))
      if names - set(allv):
        fails.append(ctx.fail('self_comparison_names', f'{label}: missing '
                              f'{sorted(names - set(allv))[:4]}', {}, 'self'))
    except Exception as e:
      fails.append(ctx.fail('self_comparison_raises', f'{label}: '
                            f'{type(e).__name__}: {e}'[:300],
                            {'qtypes': sorted({fbparse.TN[t.type] for t in
                                               (qm if label == 'quantized' else
                                                fm).subs[si].tensors})},
                            f'self:{label}:{type(e).__name__}'))
  return fails


LAW_VALUES = [0.0, 1.0, -2.5, 1e-9, float('inf'), float('-inf'), float('nan')]


def run_laws(case):
  """Metric laws on a finite alphabet of argument pairs, incl. non-finite
  values in either operand (the metric functions sanitise NaN/inf)."""
  import itertools
  from vf import findings
  env.lib()
  from ai_edge_quantizer.utils import validation_utils
  res = {'evals': 0, 'nontrivial': 0, 'hashes': [], 'fails': [], 'states': 0,
         'transitions': 0, 'traces': 0, 'counts': {}}
  arrays = [np.array(p, dtype=np.float32)
            for p in itertools.product(LAW_VALUES, repeat=2)]
  only = case.get('only')
  for mname in METRICS:
    fn = validation_utils.get_validation_func(mname)
    for a in arrays:
      for b in arrays:
        sub = f'laws|{mname}|{a.tolist()}|{b.tolist()}'
        if only is not None and only != sub:
          continue
        res['evals'] += 1
        res['states'] += 1
        got = float(fn(a, b))
        want = metric(mname, a, b)
        bad = None
        if not (got >= 0):
          bad = ('metric_negative', f'{got}')
        elif not np.isclose(got, want, rtol=1e-5, atol=0) and not (
            np.isinf(got) and np.isinf(want)):
          bad = ('metric_value_nonfinite_args', f'{got} expected {want}')
        elif np.array_equal(a, b, equal_nan=True) and got != 0.0:
          bad = ('metric_not_zero_on_equal', f'{got}')
        elif mname == 'mse':
          back = float(fn(b, a))
          if not (np.isclose(got, back, rtol=1e-6, atol=0) or
                  (np.isinf(got) and np.isinf(back))):
            bad = ('mse_not_symmetric', f'{got} vs {back}')
        if bad:
          res['fails'].append(findings.fail(PROP, bad[0], f'{sub}: {bad[1]}',
                                            sub, {}, group=bad[0] + mname))
        else:
          res['nontrivial'] += 1
  res['hashes'] = ['laws-%d' % k for k in range(min(res['nontrivial'], 64))]
  res['traces'] = res['evals']
  res['transitions'] = res['evals']
  res['sample'] = {'laws': 'all pairs of length-2 arrays over ' + str(LAW_VALUES)}
  return res


def run_case(case, note, skip):
  if case.get('laws'):
    return run_laws(case)
  return common.run_graph_case(PROP, case, note, skip, recipe_plan, oracle)
