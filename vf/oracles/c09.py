"""C09 - calibration statistics are exact, order-faithful and resumable (E2)."""
import copy
import itertools

import numpy as np

from vf import enum_graphs as eg
from vf import env, findings, ir as irm, lite, modes as md, universe

PROP = 'C09'
QDIM = {'FULLY_CONNECTED': 0, 'CONV_2D': 0, 'DEPTHWISE_CONV_2D': 3,
        'CONV_2D_TRANSPOSE': 0, 'EMBEDDING_LOOKUP': 0}
KINDS = ['mix', 'pos', 'alt']
N2_TYPES = eg.TTOPO + ['CONV_2D', 'EMBEDDING_LOOKUP', 'MUL']


def datasets(maxlen):
  for n in range(1, maxlen + 1):
    yield from itertools.product(range(len(KINDS)), repeat=n)


def compositions(n):
  """All ways of cutting range(n) into consecutive non-empty parts."""
  for cuts in itertools.product((0, 1), repeat=n - 1):
    parts, start = [], 0
    for i, c in enumerate(cuts):
      if c:
        parts.append((start, i + 1))
        start = i + 1
    parts.append((start, n))
    yield parts


def cases(tier):
  yield from multi_cases()
  for c in universe.graph_cases([(1, eg.T21, 'allx', 'none')]):
    c['maxlen'] = 3
    yield c
  types = eg.T21
  for c in universe.graph_cases([(2, types, 'first', 'one')]):
    c['maxlen'] = 3 if tier == 'thorough' else 2
    yield c
  # three operators: a dead intermediate exists, so the interpreter used for
  # calibration must really preserve every tensor
  for c in universe.graph_cases([(3, eg.TTOPO, 'first', 'none')]):
    c['maxlen'] = 2 if tier == 'thorough' else 1
    yield c


MULTI_OPS = [('FULLY_CONNECTED', 'bias'), ('CONV_2D', '1x1'), ('MUL', 'tc'),
             ('TANH', ''), ('BATCH_MATMUL', 'const')]


def multi_cases():
  for a in MULTI_OPS:
    for b in MULTI_OPS:
      yield {'multi': [a, b]}
      yield {'multi': [a, b], 'sigdefs': 'rev'}


def run_multi(case, res):
  """Two signatures: calibrate one, resume on the other (both orders)."""
  L = env.lib()
  subs = []
  for i, (t, v) in enumerate(case['multi']):
    ar = irm.arity(t, v)
    subs.append({'ops': [irm.op(t, v, [0] * ar)], 'exports': [],
                 'prefix': ['', 'b_'][i], 'key': ['serving_default', 'sig1'][i]})
  mir = {'subgraphs': subs, 'pool': env.seed() % 4}
  if case.get('sigdefs'):
    mir['sigdefs'] = case['sigdefs']
  built = irm.build(mir)
  if built is None:
    return
  res['states'] += 1
  only = case.get('only')
  recipe = [md.rule('.*', '*', 'SRQ8a')]
  reads, datas = [], []
  for si in range(2):
    data = built.input_data(si, 'mix')
    _, it = lite.run_signature(built.model, data, built.keys[si])
    tens = lite.all_tensors(it, si)
    reads.append({n: (np.float32(np.min(v)), np.float32(np.max(v)))
                  for n, (v, _) in tens.items()})
    datas.append(data)
  consts = {built.tname(s_, t): built.const(s_, t) for (s_, t) in built.g.const}
  finals = []
  for order in ((0, 1), (1, 0)):
    sub = 'multi|order=%d%d' % order
    if only is not None and only != sub:
      continue
    cal = None
    try:
      for si in order:
        snap = copy.deepcopy(cal)
        new = L.quantizer.Quantizer(built.model, copy.deepcopy(recipe)).calibrate(
            [copy.deepcopy(datas[si])], built.keys[si], cal)
        if snap is not None and not _same(cal, snap):
          res['fails'].append(findings.fail(
              PROP, 'previous_result_modified', sub, sub, {}, 'multi'))
        cal = new
        res['transitions'] += 1
    except Exception as e:  # pylint: disable=broad-except
      res['fails'].append(findings.fail(
          PROP, 'calibrate_raises', f'{sub}: {type(e).__name__}: {e}'[:300],
          sub, {}, 'multi'))
      continue
    res['evals'] += 1
    res['traces'] += 1
    res['nontrivial'] += 1
    res['hashes'].append(_digest(cal))
    finals.append(cal)
    for si in range(2):
      for meta in built.ops[si]:
        for t in list(meta.ins) + list(meta.outs):
          if t == -1:
            continue
          name = built.tname(si, t)
          qsv = cal.get(name)
          if not qsv or 'min' not in qsv:
            res['fails'].append(findings.fail(
                PROP, 'missing_stats', f'{sub}: {name} has no statistics after '
                'both signatures were calibrated', sub, {}, 'multi'))
            continue
          if name in consts:
            c = consts[name]
            mn = np.asarray(qsv['min']).ravel()
            ok = (float(mn.min()) == float(c.min()) and
                  float(np.asarray(qsv['max']).max()) == float(c.max()))
          else:
            ok = (float(np.ravel(qsv['min'])[0]) == float(reads[si][name][0]) and
                  float(np.ravel(qsv['max'])[0]) == float(reads[si][name][1]))
          if not ok:
            res['fails'].append(findings.fail(
                PROP, 'multi_signature_stats', f'{sub}: {name}', sub, {},
                'multi'))
  if len(finals) == 2 and not _same(finals[0], finals[1]):
    res['fails'].append(findings.fail(
        PROP, 'signature_order_matters', 'multi: calibrating the two '
        'signatures in the other order gives different statistics',
        'multi|order=10', {}, 'multi'))


def plan(tier, seed):
  return {
      'cases': cases(tier), 'chunk': 4,
      'budget_s': 280 if tier == 'quick' else 3300,
      'rule': ('E2 on Quantizer.calibrate: for every model x recipe needing '
               'calibration x every dataset (all sequences over 3 input values '
               'up to the length bound) x EVERY composition of the dataset into '
               'resumed sessions, each history is replayed on a fresh '
               'Quantizer; oracle: one-pass result == R-ema over my own '
               'per-sample interpreter reads (<= 2 ulp), constants == true '
               'min/max from the IR, every split history == the single pass '
               'bitwise, the previous result passed in is unchanged, keys == '
               'tensors of the operators the reference recipe model selects. '
               'non-trivial = (model, recipe, dataset, split) histories with '
               'more than one sample; distinct = distinct result digests'),
      'bounds': {'dataset_len': 3, 'input_values': KINDS,
                 'value_pool': seed % 4},
      'alphabet': {'T21': eg.T21, 'N2': N2_TYPES},
      'exhaustive': True,
  }


def recipes(built):
  out = [('R2:SRQ8a', [md.rule('.*', '*', 'SRQ8a')]),
         ('R2:SRQ16', [md.rule('.*', '*', 'SRQ16')])]
  # model I/O quantized while every operator stays float: the boundary tensors
  # are then recorded by the virtual INPUT/OUTPUT operators alone
  out.append(('R5:INPUT', [md.rule('.*', 'INPUT', 'SRQ8a')]))
  out.append(('R5:IO', [md.rule('.*', 'INPUT', 'SRQ8a'),
                        md.rule('.*', 'OUTPUT', 'SRQ8a')]))
  # single-op scoped rules: only that operator's tensors may get statistics
  for k, meta in enumerate(built.ops[0]):
    if md.supported(meta.type, 'SRQ8s'):
      out.append((f'R3:op{k}=SRQ8s',
                  [md.rule(md.op_regex(built, meta), meta.type, 'SRQ8s')]))
  return out


def _digest(cal):
  import hashlib
  h = hashlib.sha256()
  for k in sorted(cal):
    h.update(k.encode())
    for f in sorted(cal[k]):
      a = np.asarray(cal[k][f])
      h.update(f.encode() + str(a.dtype).encode() + str(a.shape).encode() +
               a.tobytes())
  return h.hexdigest()[:16]


def _same(a, b):
  """Bitwise equality of two calibration results."""
  if set(a) != set(b):
    return False
  for k in a:
    if set(a[k]) != set(b[k]):
      return False
    for f in a[k]:
      x, y = np.asarray(a[k][f]), np.asarray(b[k][f])
      if x.dtype != y.dtype or x.shape != y.shape or x.tobytes() != y.tobytes():
        return False
  return True


def _ulps(a, b):
  a = np.asarray(a, dtype=np.float32).ravel()
  b = np.asarray(b, dtype=np.float32).ravel()
  if a.shape != b.shape:
    return np.inf
  if np.array_equal(a, b):
    return 0
  sp = np.spacing(np.maximum(np.abs(a), np.abs(b)).astype(np.float32))
  return float(np.max(np.abs(a.astype(np.float64) - b.astype(np.float64)) /
                      np.maximum(sp, 1e-45)))


def expected_keys(built, recipe):
  modes, io = universe.resolved_modes(built, recipe)
  keys = set()
  for meta, m in zip(built.ops[0], modes):
    if m and m != 'NQ':
      for t in list(meta.ins) + list(meta.outs):
        if t != -1:
          keys.add(built.tname(0, t))
  if io.get('INPUT') not in (None, 'NQ'):
    keys.update(built.tname(0, t) for _, t, _ in built.inputs[0])
  if io.get('OUTPUT') not in (None, 'NQ'):
    keys.update(built.tname(0, t) for _, t in built.outputs[0])
  return keys


def run_case(case, note, skip):
  L = env.lib()
  res = {'evals': 0, 'nontrivial': 0, 'hashes': [], 'fails': [], 'states': 0,
         'transitions': 0, 'traces': 0, 'counts': {}}
  if case.get('multi'):
    run_multi(case, res)
    res['sample'] = {'two_signature_model': case['multi']}
    return res
  ir = dict(case['ir'])
  ir.setdefault('pool', env.seed() % 4)
  built = irm.build(ir)
  if built is None:
    return res
  only = case.get('only')
  # my own per-sample reads
  samples, reads = [], []
  for kd in KINDS:
    data = built.input_data(0, kd)
    try:
      _, it = lite.run_signature(built.model, data, built.keys[0])
    except Exception:
      return res
    tens = lite.all_tensors(it, 0)
    if not all(np.all(np.isfinite(v)) for v, _ in tens.values()
               if np.issubdtype(v.dtype, np.floating)):
      res['counts']['float_nonfinite_skipped'] = 1
      return res
    samples.append(data)
    reads.append({n: (np.min(v), np.max(v)) for n, (v, _) in tens.items()})
  res['states'] = 1
  const_names = {built.tname(0, t): built.const(0, t)
                 for (s, t) in built.g.const if s == 0}

  const_axis = {}
  for meta in built.ops[0]:
    if meta.weight is None:
      continue
    w = built.const(0, meta.weight)
    if meta.type in QDIM:
      const_axis[built.tname(0, meta.weight)] = QDIM[meta.type]
    elif meta.type == 'BATCH_MATMUL':
      const_axis[built.tname(0, meta.weight)] = (
          w.ndim - 2 if meta.variant == 'const_adjy' else w.ndim - 1)

  def fail(kind, detail, sub, facts=None):
    res['fails'].append(findings.fail(PROP, kind, detail, sub, facts or {},
                                      group=kind))

  for rkey, recipe in recipes(built):
    qt0 = L.quantizer.Quantizer(built.model, copy.deepcopy(recipe))
    if not qt0.need_calibration:
      continue
    want_keys = expected_keys(built, recipe)
    for ds in datasets(case.get('maxlen', 3)):
      dsub = f'{rkey}|ds={"".join(map(str, ds))}'
      if only is not None and not only.startswith(dsub):
        continue
      seq = [samples[i] for i in ds]
      try:
        full = L.quantizer.Quantizer(built.model, copy.deepcopy(recipe)
                                     ).calibrate(copy.deepcopy(seq))
      except Exception as e:  # pylint: disable=broad-except
        fail('calibrate_raises', f'{type(e).__name__}: {e}'[:300],
             dsub + '|split=full')
        continue
      res['evals'] += 1
      res['transitions'] += len(ds)
      res['traces'] += 1
      sub = dsub + '|split=full'
      if len(ds) == 1 and set(full) != want_keys:
        fail('keys', f'{sub}: unexpected {sorted(set(full) - want_keys)[:4]} '
             f'missing {sorted(want_keys - set(full))[:4]}', sub)
      # R-ema
      for name, qsv in full.items():
        if name in const_names:
          c = const_names[name]
          mn = np.asarray(qsv.get('min'))
          mx = np.asarray(qsv.get('max'))
          ok = False
          if mn.size == 1:
            ok = float(mn.ravel()[0]) == float(c.min()) and \
                float(mx.ravel()[0]) == float(c.max())
          else:
            # weights: the axis the operator's kernel expects (C04's table);
            # other constants: any axis of matching size
            for d in ([const_axis[name]] if name in const_axis
                      else range(c.ndim)):
              if c.shape[d] != mn.size:
                continue
              if mn.ndim == c.ndim and mn.shape[d] != mn.size:
                continue
              ax = tuple(i for i in range(c.ndim) if i != d)
              if np.array_equal(mn.ravel(), c.min(axis=ax).ravel()) and \
                  np.array_equal(mx.ravel(), c.max(axis=ax).ravel()):
                ok = True
          if not ok:
            fail('constant_stats', f'{sub}: {name} min {mn.ravel()[:3]} max '
                 f'{mx.ravel()[:3]}', sub)
          continue
        if name not in reads[0]:
          fail('unknown_tensor', f'{sub}: {name}', sub)
          continue
        w_min = w_max = None
        for i in ds:
          u_min = np.float32(reads[i][name][0])
          u_max = np.float32(reads[i][name][1])
          if w_min is None:
            w_min, w_max = np.array([u_min]), np.array([u_max])
          else:
            w_min = 0.95 * w_min + (1.0 - 0.95) * np.array([u_min])
            w_max = 0.95 * w_max + (1.0 - 0.95) * np.array([u_max])
        if 'min' not in qsv or 'max' not in qsv:
          fail('missing_stats', f'{sub}: {name} has {list(qsv)}', sub)
          continue
        if np.asarray(qsv['min']).dtype.kind == 'f':
          u = max(_ulps(qsv['min'], w_min), _ulps(qsv['max'], w_max))
        else:
          u = 0 if (float(np.ravel(qsv['min'])[0]) == float(w_min[0]) and
                    float(np.ravel(qsv['max'])[0]) == float(w_max[0])) else 99
        if u > 2:
          fail('ema_value', f'{sub}: {name} min {np.ravel(qsv["min"])[:1]} max '
               f'{np.ravel(qsv["max"])[:1]} expected {w_min} {w_max} '
               f'({u:.1f} ulp)', sub)
      if len(ds) > 1:
        res['nontrivial'] += 1
      res['hashes'].append(_digest(full))
      # a second calibrate() on the same object WITHOUT a previous result
      # starts from scratch and leaves the first result alone
      if len(ds) == 2 and (only is None or only == dsub + '|again'):
        q_ = L.quantizer.Quantizer(built.model, copy.deepcopy(recipe))
        try:
          first = q_.calibrate(copy.deepcopy(seq[:1]))
          snap = copy.deepcopy(first)
          second = q_.calibrate(copy.deepcopy(seq[1:]))
          fresh = L.quantizer.Quantizer(
              built.model, copy.deepcopy(recipe)).calibrate(
                  copy.deepcopy(seq[1:]))
          res['evals'] += 1
          res['transitions'] += 2
          if not _same(first, snap):
            fail('previous_result_modified', f'{dsub}|again: the result of the '
                 'first calibrate() changed during the second', dsub + '|again')
          if not _same(second, fresh):
            fail('restart_differs', f'{dsub}|again: calibrate() without a '
                 'previous result depends on an earlier call on the same '
                 'Quantizer', dsub + '|again')
        except Exception as e:  # pylint: disable=broad-except
          fail('calibrate_raises', f'{dsub}|again: {type(e).__name__}: {e}'[:300],
               dsub + '|again')
      # every split into resumed sessions
      for parts in compositions(len(ds)):
        if len(parts) == 1:
          continue
        psub = dsub + '|split=' + ','.join(f'{a}-{b}' for a, b in parts)
        if only is not None and only != psub:
          continue
        cal = None
        ok = True
        # odd-numbered splits run all sessions on ONE Quantizer object, the
        # others on a fresh object per session
        shared_qt = (L.quantizer.Quantizer(built.model, copy.deepcopy(recipe))
                     if sum(b for _, b in parts) % 2 else None)
        for a, b in parts:
          snap = copy.deepcopy(cal)
          try:
            q_ = shared_qt or L.quantizer.Quantizer(built.model,
                                                    copy.deepcopy(recipe))
            new = q_.calibrate(
                    copy.deepcopy(seq[a:b]), previous_calibration_result=cal)
          except Exception as e:  # pylint: disable=broad-except
            fail('calibrate_raises', f'{psub}: {type(e).__name__}: {e}'[:300],
                 psub)
            ok = False
            break
          if snap is not None and not _same(cal, snap):
            fail('previous_result_modified', psub, psub)
          cal = new
          res['transitions'] += b - a
        res['evals'] += 1
        res['traces'] += 1
        res['nontrivial'] += 1
        if ok and not _same(cal, full):
          diff = [k for k in full if k not in cal or any(
              np.asarray(full[k][f]).tobytes() != np.asarray(
                  cal[k].get(f, np.zeros(0))).tobytes() for f in full[k])]
          fail('resume_differs', f'{psub}: differs from the single pass on '
               f'{diff[:3]}', psub)
  if only is not None:
    res['fails'] = [f for f in res['fails'] if f['sub'] == only]
  res['sample'] = {'ir': ir, 'datasets': 'all sequences over ' + str(KINDS)}
  return res
