"""C06 - float-compute modes equal the float model run with dequantized
constants (translation validation by execution)."""
import numpy as np
import flatbuffers
from ai_edge_litert import schema_py_generated as s

from vf import enum_graphs as eg
from vf import fbparse, ir as irm, lite, modes as md, skeleton, universe
from vf.oracles import common

PROP = 'C06'
T = fbparse.T
FMODES = ['NQ', 'WO8c', 'WO8a', 'WO4c', 'FP16', 'DRQ8c', 'DRQ8t', 'DRQ4c']
WOPS = ['FULLY_CONNECTED', 'CONV_2D', 'DEPTHWISE_CONV_2D', 'CONV_2D_TRANSPOSE',
        'BATCH_MATMUL', 'EMBEDDING_LOOKUP']
NEIGH = WOPS + ['ADD', 'TANH', 'RESHAPE', 'CONCATENATION', 'SPLIT', 'ABS', 'MUL',
                'SOFTMAX']
PLAN_1 = {'uniform': [m for m in md.ALL_MODES if md.kind(m) in
                      ('WO', 'DRQ', 'FP16')] + ['DRQ8a', 'DRQ4a'],
          'io': ['none']}
PLAN_2 = {'shipped': False, 'uniform': ['WO8c', 'WO4a', 'DRQ8c', 'DRQ4c', 'FP16'],
          'perop': FMODES, 'io': ['none']}
PLAN_2Q = {'shipped': False, 'uniform': ['WO8a', 'DRQ8c', 'FP16'],
           'perop': ['NQ', 'WO4c', 'DRQ8t', 'DRQ4c', 'FP16'], 'io': ['none']}
PLAN_3 = {'uniform': ['WO8c', 'DRQ8c'], 'perop': ['NQ', 'WO8a', 'DRQ8c'],
          'io': ['none']}
PLAN_C = {'uniform': ['WO8c', 'WO4a', 'FP16', 'DRQ8c'], 'io': ['none']}
PLANS = {'pc': PLAN_C, 'p1': PLAN_1, 'p2': PLAN_2, 'p2q': PLAN_2Q, 'p3': PLAN_3}


def cases(tier):
  dk_all = list(irm.INPUT_KINDS)
  for xs in ('S4', 'S43', 'R2', 'O35'):
    for c in universe.graph_cases([(1, WOPS, 'allx', 'none')], {'rp': 'p1'}):
      c['ir']['x'] = xs
      for wk in (['rand', 'outlier', 'zero_channel'] if tier == 'quick'
                 else ['rand', 'outlier', 'zero_channel', 'pos', 'tiny', 'big',
                       'const']):
        cc = {'ir': dict(c['ir']), 'rp': 'p1', 'dk': dk_all}
        cc['ir']['subgraphs'] = [dict(c['ir']['subgraphs'][0], ops=[
            dict(o, wk=wk) for o in c['ir']['subgraphs'][0]['ops']])]
        yield cc
  for c in universe.graph_cases([(2, NEIGH, 'first', 'one')]):
    if not any(o['t'] in WOPS for o in c['ir']['subgraphs'][0]['ops']):
      continue
    c.update({'rp': 'p2q' if tier == 'quick' else 'p2',
              'dk': ['mix', 'big'] if tier == 'quick' else ['mix', 'pos', 'big',
                                                           'tiny']})
    yield c
  # linear chains deeper than the DAG bound: several rewritten weights in one
  # subgraph (op-id bookkeeping across many insertions)
  for n in ((4, 5) if tier == 'quick' else (4, 5, 6)):
    for g in eg.chains(n, ['FULLY_CONNECTED', 'CONV_2D', 'TANH']):
      if sum(o['t'] != 'TANH' for o in g['subgraphs'][0]['ops']) >= 3:
        yield {'ir': g, 'rp': 'pc', 'dk': ['mix']}
  for c in universe.graph_cases([(3, eg.TTOPO, 'first',
                                  'none' if tier == 'quick' else 'one')]):
    if not any(o['t'] in WOPS for o in c['ir']['subgraphs'][0]['ops']):
      continue
    c.update({'rp': 'p3', 'dk': ['mix']})
    yield c


def plan(tier, seed):
  return {
      'cases': cases(tier), 'chunk': 8,
      'budget_s': 285 if tier == 'quick' else 3300,
      'rule': ('E1: graph histories containing a weight-bearing operator '
               '(depth<=2 with neighbours, depth 3 over the class '
               'representatives) x uniform and per-operator mixed recipes over '
               'the weight-only/float16/dynamic-range modes x inputs over the '
               'whole input alphabet. For each returned model a REFERENCE '
               'PROGRAM is built from the input IR with every rewritten '
               'constant replaced by the independent decode of the output '
               'model\'s bytes; both run in LiteRT. Weight-only/float16: equal '
               'up to float32 rounding; dynamic-range: within the analytic '
               'bound of the runtime\'s symmetric int8 activation quantisation '
               'propagated through the graph with Lipschitz constants. '
               'non-trivial = returned model with a rewritten constant'),
      'bounds': {'value_pool': seed % 4, 'modes': FMODES},
      'alphabet': {'weight_ops': WOPS, 'neighbours': NEIGH,
                   'inputs': list(irm.INPUT_KINDS), 'recipe_plans': PLANS},
      'assumptions': ['inputs are covered on the finite input alphabet only',
                      'dynamic-range bound: (max|x|/254)*sum|w| per op, x1.05'],
  }


def recipe_plan(built, case):
  return PLANS[case.get('rp', 'p2')]


def reference_program(ctx):
  """Float model with each rewritten constant replaced by its decoded value."""
  fm, qm = ctx.fm, ctx.pm
  m = s.ModelT.InitFromPackedBuf(ctx.built.model, 0)
  deq = {}
  fs, qs = fm.subs[0], qm.subs[0]
  for t in fs.tensors:
    if fm.buffers[t.buffer] is None or t.type != T.FLOAT32:
      continue
    qt = qs.tensors[t.index]
    if qt.type == T.FLOAT32 and qm.tensor_bytes(qt) == fm.buffers[t.buffer]:
      continue
    v = fbparse.decode_constant(qm, qt)
    if v is None:
      raise ValueError(f'cannot decode constant {qt.name}')
    v32 = np.asarray(v, dtype=np.float64).astype(np.float32).reshape(t.shape)
    m.buffers[t.buffer].data = np.frombuffer(v32.tobytes(), dtype=np.uint8)
    deq[t.index] = v32
  b = flatbuffers.Builder(1024)
  b.Finish(m.Pack(b), file_identifier=b'TFL3')
  return bytes(b.Output()), deq


def _wnorm(meta, w):
  """max over outputs of sum |w| feeding one output element."""
  a = np.abs(np.asarray(w, dtype=np.float64))
  t = meta.type
  if t == 'FULLY_CONNECTED':
    return float(a.sum(axis=1).max())
  if t in ('CONV_2D', 'CONV_2D_TRANSPOSE'):
    return float(a.reshape(a.shape[0], -1).sum(axis=1).max())
  if t == 'DEPTHWISE_CONV_2D':
    return float(a.reshape(-1, a.shape[-1]).sum(axis=0).max())
  if t == 'BATCH_MATMUL':
    ax = -1 if meta.variant == 'const_adjy' else -2
    return float(a.sum(axis=ax).max())
  return float(a.sum())


def error_bound(ctx, modes, rt, deq):
  """Upper bound of |quantized run - reference run| per tensor (inf-norm)."""
  built = ctx.built
  fs = ctx.fm.subs[0]
  err = {}
  amax = {}

  def mx(t):
    if t not in amax:
      name = fs.tensors[t].name
      v = rt[name][0] if name in rt else built.const(0, t)
      amax[t] = float(np.max(np.abs(v))) if np.size(v) else 0.0
    return amax[t]

  for meta, mode in zip(built.ops[0], modes):
    ins = [t for t, r in zip(meta.ins, meta.roles) if t != -1 and r == 'D']
    e_in = [err.get(t, 0.0) for t in ins]
    emax = max(e_in) if e_in else 0.0
    t = meta.type
    w = None
    if meta.weight is not None:
      w = deq.get(meta.weight, built.const(0, meta.weight))
    if t in ('FULLY_CONNECTED', 'CONV_2D', 'DEPTHWISE_CONV_2D',
             'CONV_2D_TRANSPOSE') or (t == 'BATCH_MATMUL' and w is not None):
      L = _wnorm(meta, w)
      e = L * emax
      if md.kind(mode) == 'DRQ':
        e += (mx(ins[0]) + emax) / 254.0 * L * 1.05
    elif t == 'BATCH_MATMUL':
      a, b = ins
      k = fs.tensors[a].shape[-1]
      e = k * (mx(a) * err.get(b, 0.0) + mx(b) * err.get(a, 0.0) +
               err.get(a, 0.0) * err.get(b, 0.0))
    elif t == 'EMBEDDING_LOOKUP':
      e = 0.0
    elif t in ('ADD', 'SUB'):
      e = sum(e_in)
    elif t == 'MUL':
      if len(ins) == 2:
        a, b = ins
        e = (mx(a) * err.get(b, 0.0) + mx(b) * err.get(a, 0.0) +
             err.get(a, 0.0) * err.get(b, 0.0))
      else:
        e = float(np.max(np.abs(w))) * emax
    elif t == 'GELU':
      e = 1.13 * emax
    elif t == 'RSQRT':
      v = rt[fs.tensors[ins[0]].name][0]
      lo = float(np.min(v)) - emax
      e = np.inf if lo <= 0 else 0.5 * lo ** -1.5 * emax
    else:
      e = emax   # 1-Lipschitz: activations, pooling, mean, data movement
    for o in meta.outs:
      err[o] = e
  return err


def oracle(ctx):
  fails = []
  modes, _ = ctx.modes
  try:
    ref_model, deq = reference_program(ctx)
  except Exception as e:  # C05's subject; cannot build a reference program
    return [ctx.fail('constant_undecodable', f'{type(e).__name__}: {e}'[:200])]
  try:
    ref_out, rit = lite.run_signature(ref_model, ctx.data, ctx.built.keys[0])
    q_out, _ = lite.run_signature(ctx.outcome.model, ctx.data,
                                  ctx.built.keys[0])
  except Exception as e:
    return [ctx.fail('runtime_error', f'{type(e).__name__}: {e}'[:300],
                     facts=_facts(ctx, modes))]
  rt = lite.all_tensors(rit, 0)
  if not all(np.all(np.isfinite(v)) for v, _ in rt.values()
             if np.issubdtype(v.dtype, np.floating)):
    return fails   # reference program itself overflows: no claim
  bound = error_bound(ctx, modes, rt, deq)
  for (arg, tid) in ctx.built.outputs[0]:
    r, q = ref_out[arg], q_out[arg]
    if r.shape != q.shape:
      fails.append(ctx.fail('output_shape', f'{arg}: {q.shape} vs {r.shape}'))
      continue
    b = bound.get(tid, 0.0)
    scale = max(1.0, float(np.max(np.abs(r)))) if r.size else 1.0
    tol = b + 2e-5 * scale
    d = float(np.max(np.abs(q - r))) if r.size else 0.0
    if not np.all(np.isfinite(q)) or d > tol:
      prod = [m for m in ctx.built.ops[0] if tid in m.outs]
      fails.append(ctx.fail(
          'output_mismatch', f'{arg} ({prod[0].type if prod else "?"}): '
          f'|quantized - reference|max = {d:.6g}, allowed {tol:.6g} '
          f'(dynamic-range bound {b:.6g}); modes {modes}',
          facts=_facts(ctx, modes, tid),
          group=','.join(f'{m.type}:{mo}' for m, mo in
                         zip(ctx.built.ops[0], modes) if mo != 'NQ')))
  return fails


def _upstream(ctx, tid):
  """Indices of the operators the value of tensor tid depends on."""
  ops = ctx.built.ops[0]
  prod = {o: m for m in ops for o in m.outs}
  seen, todo = set(), [tid]
  while todo:
    t = todo.pop()
    m = prod.get(t)
    if m is None or m.index in seen:
      continue
    seen.add(m.index)
    todo.extend(i for i in m.ins if i != -1)
  return sorted(seen)


def _facts(ctx, modes, tid=None):
  ops = ctx.built.ops[0]
  return {'upstream': _upstream(ctx, tid) if tid is not None
          else list(range(len(ops))),
          'types': [m.type for m in ops], 'variants': [m.variant for m in ops],
          'modes': modes, 'x': ctx.case['ir'].get('x', 'S4'),
          'wshapes': [list(ctx.built.const(0, m.weight).shape)
                      if m.weight is not None else None for m in ops]}


def run_case(case, note, skip):
  return common.run_graph_case(PROP, case, note, skip, recipe_plan, oracle,
                               data_kinds=tuple(case.get('dk', ['mix'])))
