"""C07 - full-integer models approximate the float model on calibrated inputs."""
import math

import numpy as np

from vf import enum_graphs as eg
from vf import fbparse, ir as irm, lite, modes as md, skeleton, universe
from vf.oracles import common

PROP = 'C07'
SMODES = ['SRQ8a', 'SRQ8s', 'SRQ8at', 'SRQ8sc', 'SRQ16', 'SRQ16t', 'SRQ8w4',
          'SRQ16w4']
PLAN_1 = {'uniform': SMODES, 'io': ['none']}
PLAN_2Q = {'shipped': False, 'uniform': ['SRQ8a', 'SRQ8s', 'SRQ16'],
           'perop': ['NQ', 'SRQ8a', 'SRQ16'], 'io': ['none']}
PLAN_2 = {'shipped': True, 'uniform': ['SRQ8s', 'SRQ8w4', 'SRQ16t'],
          'perop': ['NQ', 'SRQ8a', 'SRQ8s', 'SRQ16'], 'io': ['none', 'both8'],
          'io_on': ('perop',)}
PLAN_3 = {'uniform': ['SRQ8a', 'SRQ16'], 'perop': ['NQ', 'SRQ8a'],
          'io': ['none']}
PLANS = {'p1': PLAN_1, 'p2q': PLAN_2Q, 'p2': PLAN_2, 'p3': PLAN_3}
# fixed fraction of the float model's activation magnitude (see DESIGN.md 7/C07)
B_W8, B_W4, B_RSQRT = 0.15, 0.4, 0.4


def cases(tier):
  for c in universe.graph_cases([(1, eg.T21, 'allx', 'none')]):
    for wk in (['rand', 'pos'] if tier == 'quick'
               else ['rand', 'pos', 'neg', 'outlier', 'ramp']):
      cc = {'ir': {'subgraphs': [dict(c['ir']['subgraphs'][0], ops=[
          dict(o, wk=wk) for o in c['ir']['subgraphs'][0]['ops']])]},
            'rp': 'p1', 'dk': ['mix', 'pos', 'neg']}
      yield cc
  for c in universe.graph_cases([(2, eg.T21, 'first', 'one')]):
    c.update({'rp': 'p2q' if tier == 'quick' else 'p2',
              'dk': ['mix'] if tier == 'quick' else ['mix', 'pos', 'neg']})
    yield c
  for c in universe.graph_cases([(3, eg.TTOPO, 'first', 'none')]):
    c.update({'rp': 'p3', 'dk': ['mix']})
    yield c


def plan(tier, seed):
  return {
      'cases': cases(tier), 'chunk': 16,
      'budget_s': 285 if tier == 'quick' else 3300,
      'rule': ('E1: graph histories (all 21 ops and variants at depth 1, all '
               'pairs at depth 2, class representatives at depth 3) x the '
               'static-range configs accepted by the policy (8/16-bit '
               'activations, 4/8-bit weights, sym/asym activations, tensor/'
               'channel weights) x calibration input = test input in {mix, '
               'pos, neg}; oracle: outputs finite, not constant when the float '
               'output is not, and |dequantized - float|max <= 4*scale_out + '
               'B*M (M = max |activation| of the float run; B = 0.15, or 0.4 '
               'with 4-bit weights or RSQRT). non-trivial = returned model '
               'differing from the float model'),
      'bounds': {'value_pool': seed % 4, 'modes': SMODES,
                 'B': {'w8': B_W8, 'w4': B_W4, 'rsqrt': B_RSQRT}},
      'alphabet': {'T21': eg.T21, 'Ttopo': eg.TTOPO, 'recipe_plans': PLANS},
      'assumptions': ['the loose bound is the property\'s own; sharp detection '
                      'of wrong parameters is the job of C04/C05'],
  }


def recipe_plan(built, case):
  return PLANS[case.get('rp', 'p2')]


def _upstream(built, tid):
  prod = {o: m for m in built.ops[0] for o in m.outs}
  seen, todo = set(), [tid]
  while todo:
    t = todo.pop()
    m = prod.get(t)
    if m is None or m.index in seen:
      continue
    seen.add(m.index)
    todo.extend(i for i in m.ins if i != -1)
  return sorted(seen)


def oracle(ctx):
  fails = []
  modes, io = ctx.modes
  built = ctx.built
  ops = built.ops[0]
  if not any(md.kind(m) == 'SRQ' for m in modes) and not any(
      v not in (None, 'NQ') for v in io.values()):
    return fails

  def facts(tid=None):
    return {'types': [m.type for m in ops], 'variants': [m.variant for m in ops],
            'modes': modes, 'detail': '',
            'upstream': _upstream(built, tid) if tid is not None
            else list(range(len(ops))),
            'wshapes': [list(built.const(0, m.weight).shape)
                        if m.weight is not None else None for m in ops]}
  try:
    q_out, it = lite.run_signature(ctx.outcome.model, ctx.data, built.keys[0])
  except Exception as e:
    f = facts()
    f['detail'] = str(e)
    return [ctx.fail('runtime_error', f'{type(e).__name__}: {e}'[:300], f,
                     group='runtime_error')]
  qm = ctx.pm
  qs = qm.subs[0]
  act_scales = [float(t.scale[0]) for t in qs.tensors
                if t.quantized() and qm.buffers[t.buffer] is None]
  smax = max(act_scales) if act_scales else 0.0
  M = max([float(np.max(np.abs(v))) for v, _ in ctx.ftens.values()
           if np.issubdtype(v.dtype, np.floating) and v.size] + [1e-9])
  w4 = any(md.kind(m) == 'SRQ' and md.wcfg(m)['num_bits'] == 4 and
           o.type in irm.WEIGHT_OPS for o, m in zip(ops, modes))
  rs = any(o.type == 'RSQRT' for o in ops)
  B = max(B_W4 if w4 else B_W8, B_RSQRT if rs else 0.0)
  sm = skeleton.extract(ctx.fm, qm, 0)
  for k, (arg, tid) in enumerate(built.outputs[0]):
    f_, q = ctx.fout[arg], q_out[arg]
    grp = ','.join(f'{ops[i].type}:{modes[i]}' for i in _upstream(built, tid)
                   if modes[i] != 'NQ')[:80]
    if not any(md.kind(modes[i]) == 'SRQ' for i in _upstream(built, tid)) \
        and io.get('OUTPUT') in (None, 'NQ') and io.get('INPUT') in (None, 'NQ'):
      continue
    if f_.shape != q.shape:
      fails.append(ctx.fail('output_shape', f'{arg}', facts(tid), grp))
      continue
    if not np.all(np.isfinite(q)):
      fails.append(ctx.fail('output_not_finite', f'{arg}', facts(tid), grp))
      continue
    frange = float(np.max(f_) - np.min(f_)) if f_.size else 0.0
    qrange = float(np.max(q) - np.min(q)) if q.size else 0.0
    rt = qs.tensors[tid] if tid < len(qs.tensors) else None
    s_out = float(rt.scale[0]) if (rt is not None and rt.quantized()) else smax
    if f_.size > 1 and frange > max(8 * s_out, 0.05 * M) and qrange == 0.0:
      fails.append(ctx.fail(
          'output_constant', f'{arg}: float output spans {frange:.4g}, '
          f'quantized model returns the constant {float(q.ravel()[0]):.4g}',
          facts(tid), grp))
      continue
    err = float(np.max(np.abs(q - f_))) if f_.size else 0.0
    bound = 4 * s_out + B * M
    ctx.margin = max(getattr(ctx, 'margin', 0.0),
                     max(0.0, err - 4 * s_out) / (B * M))
    if err > bound:
      fails.append(ctx.fail(
          'output_error', f'{arg}: |dequantized - float|max = {err:.4g} > '
          f'4*{s_out:.4g} + {B}*{M:.4g}', facts(tid), grp))
  return fails


def run_case(case, note, skip):
  return common.run_graph_case(PROP, case, note, skip, recipe_plan, oracle,
                               data_kinds=tuple(case.get('dk', ['mix'])))
