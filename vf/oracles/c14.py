"""C14 - calibrate/quantize/validate are pure (E2 over two Quantizer objects)."""
import copy
import hashlib
import json
import multiprocessing as mp
import os
import subprocess
import sys

import numpy as np

from vf import env, findings, ir as irm, modes as md

PROP = 'C14'
_CTX = mp.get_context('fork')


def model_irs():
  return [
      irm.single([irm.op('RESHAPE', 'same'),
                  irm.op('FULLY_CONNECTED', 'bias', [1])], pool=0),
      irm.single([irm.op('TANH'), irm.op('FULLY_CONNECTED', 'bias', [1]),
                  irm.op('SOFTMAX', '', [2])], pool=0),
      irm.single([irm.op('FULLY_CONNECTED', 'nobias'),
                  irm.op('CONCATENATION', 'ax0', [0, 0])], pool=0),
  ]


RECIPES = [
    [md.rule('.*', '*', 'SRQ8a')],
    [md.rule('.*', 'FULLY_CONNECTED', 'SRQ8a')],
    [md.rule('.*', '*', 'DRQ8c')],
]
UPDATES = [('.*', 'TANH', 'NQ'), ('.*', 'FULLY_CONNECTED', 'SRQ16'),
           # a regex found in the middle of the scope, not at its start
           ('fully_conn', 'FULLY_CONNECTED', 'NQ')]
DATASETS = [['mix'], ['pos', 'mix']]


def events():
  ev = []
  for o in (0, 1):
    for i in range(len(RECIPES)):
      ev.append((o, 'load', i))
    for j in range(len(UPDATES)):
      ev.append((o, 'update', j))
    for k in range(len(DATASETS)):
      for prev in (0, 1):
        ev.append((o, 'calibrate', (k, prev)))
    for src in (0, 1):
      ev.append((o, 'quantize', src))
    ev.append((o, 'validate', None))
  return ev


def label(e):
  return f'{"AB"[e[0]]}.{e[1]}({e[2]})'


# ---------------------------------------------------------------------------
# digests / deep snapshots
# ---------------------------------------------------------------------------
def _canon(x):
  if isinstance(x, dict):
    return {str(k): _canon(v) for k, v in sorted(x.items(), key=lambda kv: str(kv[0]))}
  if isinstance(x, (list, tuple)):
    return [_canon(v) for v in x]
  if isinstance(x, np.ndarray):
    return ['nd', str(x.dtype), list(x.shape), x.tobytes().hex()]
  if isinstance(x, (np.floating, np.integer)):
    return ['np', str(x.dtype), repr(x.item())]
  if isinstance(x, (bytes, bytearray)):
    return ['b', hashlib.sha256(bytes(x)).hexdigest()]
  return x


def digest(x):
  return hashlib.sha256(json.dumps(_canon(x), sort_keys=True,
                                   default=str).encode()).hexdigest()[:20]


# ---------------------------------------------------------------------------
# fresh-process reference (forked from a zygote that never called the library)
# ---------------------------------------------------------------------------
_zyg = None
_memo = {}


def _zygote_main(conn):
  import signal
  signal.signal(signal.SIGINT, signal.SIG_IGN)
  while True:
    try:
      req = conn.recv()
    except EOFError:
      os._exit(0)
    if req is None:
      os._exit(0)
    r, w = os.pipe()
    pid = os.fork()
    if pid == 0:
      os.close(r)
      try:
        L = env.lib()
        try:
          if len(req) == 4 and req[0] == 'cal':
            _, model, recipe, data = req
            qt = L.quantizer.Quantizer(model, recipe)
            out = ('ok', digest(qt.calibrate(data)))
          else:
            model, recipe, cal = req
            qt = L.quantizer.Quantizer(model, recipe)
            out = ('ok', hashlib.sha256(bytes(
                qt.quantize(cal).quantized_model)).hexdigest())
        except Exception as e:  # pylint: disable=broad-except
          out = ('exc', type(e).__name__)
        os.write(w, json.dumps(out).encode())
      finally:
        os._exit(0)
    os.close(w)
    data = b''
    while True:
      chunk = os.read(r, 65536)
      if not chunk:
        break
      data += chunk
    os.close(r)
    os.waitpid(pid, 0)
    conn.send(json.loads(data.decode()) if data else ('died', ''))


def worker_init():
  """Runs in each worker before its first library call."""
  global _zyg
  a, b = _CTX.Pipe()
  pid = os.fork()
  if pid == 0:
    a.close()
    try:
      _zygote_main(b)
    finally:
      os._exit(0)
  b.close()
  _zyg = a


def fresh_quantize(model, recipe, cal):
  key = digest([model, recipe, cal])
  if key not in _memo:
    if _zyg is None:
      worker_init()
    _zyg.send((model, recipe, cal))
    _memo[key] = tuple(_zyg.recv())
  return _memo[key]


def fresh_calibrate(model, recipe, data):
  key = digest(['cal', model, recipe, data])
  if key not in _memo:
    if _zyg is None:
      worker_init()
    _zyg.send(('cal', model, recipe, data))
    _memo[key] = tuple(_zyg.recv())
  return _memo[key]


def run_cross(case, res):
  """Two DIFFERENT models with identical tensor names and shapes (two
  checkpoints of one network) handled one after the other in one process: the
  second one's statistics and bytes must equal those of a fresh process."""
  L = env.lib()
  only = case.get('only')
  for mi, ir in enumerate(model_irs()):
    a = irm.build(dict(ir, pool=0))
    for pool_b, wk in ((1, None), (2, 'big'), (3, 'tiny')):
      irb = json.loads(json.dumps(ir))
      irb['pool'] = pool_b
      if wk:
        for o in irb['subgraphs'][0]['ops']:
          o['wk'] = wk
      b = irm.build(irb)
      for ri, recipe in enumerate(RECIPES + [[md.rule('.*', '*', 'WO4c')],
                                             [md.rule('.*', '*', 'SRQ16')]]):
        sub = f'cross:m{mi}:b{pool_b}:r{ri}'
        if only is not None and only != sub:
          continue
        res['evals'] += 1
        res['traces'] += 1
        res['transitions'] += 4
        data = [a.input_data(0, 'mix')]
        try:
          qa = L.quantizer.Quantizer(a.model, copy.deepcopy(recipe))
          cal_a = qa.calibrate(copy.deepcopy(data)) if qa.need_calibration \
              else None
          qa.quantize(cal_a)
        except Exception:  # pylint: disable=broad-except
          pass
        qb = L.quantizer.Quantizer(b.model, copy.deepcopy(recipe))
        try:
          cal_b = qb.calibrate(copy.deepcopy(data)) if qb.need_calibration \
              else None
          got_cal = ('ok', digest(cal_b)) if cal_b is not None else None
        except Exception as ex:  # pylint: disable=broad-except
          cal_b, got_cal = None, ('exc', type(ex).__name__)
        if qb.need_calibration:
          want_cal = fresh_calibrate(b.model, copy.deepcopy(recipe), data)
          if tuple(got_cal) != tuple(want_cal):
            res['fails'].append(findings.fail(
                PROP, 'history_dependent_calibration', f'[{sub}] statistics of '
                'the second model differ from a fresh process', sub, {},
                group='cross:cal'))
            continue
        snap = copy.deepcopy(cal_b)
        try:
          got = ('ok', hashlib.sha256(bytes(
              qb.quantize(cal_b).quantized_model)).hexdigest())
        except Exception as ex:  # pylint: disable=broad-except
          got = ('exc', type(ex).__name__)
        want = fresh_quantize(b.model, copy.deepcopy(recipe), snap)
        res['nontrivial'] += 1
        res['hashes'].append(sub + got[1][:8])
        if tuple(got) != tuple(want):
          res['fails'].append(findings.fail(
              PROP, 'history_dependent_result', f'[{sub}] bytes of the second '
              f'model: this process {got[0]}:{got[1][:12]}, fresh process '
              f'{want[0]}:{want[1][:12]}', sub, {}, group='cross:bytes'))


def run_repeat(case, res):
  """The same (model, recipe) quantized several times in one process, each
  time on a fresh Quantizer: every result equals the fresh-process bytes
  (process-wide counters, caches keyed without model identity ...)."""
  L = env.lib()
  only = case.get('only')
  star = irm.single([irm.op('FULLY_CONNECTED', 'bias', [0]),
                     irm.op('TANH', '', [0]), irm.op('ADD', 'tc', [0]),
                     irm.op('MUL', 'tt', [1, 2])], pool=0)
  diamond = irm.single([irm.op('FULLY_CONNECTED', 'nobias', [0]),
                        irm.op('FULLY_CONNECTED', 'bias', [1]),
                        irm.op('TANH', '', [1]),
                        irm.op('ADD', 'tt', [2, 3])], pool=0)
  models = model_irs() + [star, diamond]
  for mi, ir in enumerate(models):
    b = irm.build(ir)
    mixed = md.per_op_recipe(b, ['SRQ8a', 'SRQ16', 'SRQ8s', 'SRQ8a'][:len(b.ops[0])])
    for ri, recipe in enumerate(RECIPES + [mixed]):
      sub = f'repeat:m{mi}:r{ri}'
      if only is not None and only != sub:
        continue
      data = [b.input_data(0, 'mix')]
      for rep in range(3):
        res['evals'] += 1
        res['traces'] += 1
        res['transitions'] += 2
        try:
          q = L.quantizer.Quantizer(b.model, copy.deepcopy(recipe))
          cal = q.calibrate(copy.deepcopy(data)) if q.need_calibration else None
          snap = copy.deepcopy(cal)
          got = ('ok', hashlib.sha256(bytes(
              q.quantize(cal).quantized_model)).hexdigest())
        except Exception as ex:  # pylint: disable=broad-except
          snap, got = None, ('exc', type(ex).__name__)
        if got[0] == 'exc':
          break
        want = fresh_quantize(b.model, copy.deepcopy(recipe), snap)
        if tuple(got) != tuple(want):
          res['fails'].append(findings.fail(
              PROP, 'history_dependent_result', f'[{sub}] call #{rep + 1} in '
              f'this process {got[1][:12]}, fresh process {want[1][:12]}', sub,
              {}, group='repeat'))
          break
      res['nontrivial'] += 1
      res['hashes'].append(sub)


# ---------------------------------------------------------------------------
def plan(tier, seed):
  ev = events()
  depth = 3 if tier == 'quick' else 4
  cases = []
  for mi in range(3):
    for i in range(len(ev)):
      cases.append({'model': mi, 'first': i,
                    'depth': max(depth, 4) if mi == 1 else depth})
  cases.append({'hashseed': True})
  cases.append({'cross': True})
  cases.append({'repeat': True})
  return {
      'cases': cases, 'chunk': 1, 'init': worker_init,
      'budget_s': 285 if tier == 'quick' else 3400,
      'rule': ('E2: all interleavings of length <= depth of {load x3, update '
               'x2, calibrate x (2 datasets x previous None/last), quantize x '
               '(own/other calibration result), validate} on TWO Quantizer '
               'objects sharing calibration results, on 3 models; after every '
               'call deep snapshots of every caller-owned object (model bytes, '
               'recipes, datasets, every calibration result ever returned) must '
               'be unchanged; every quantize() result must equal the bytes a '
               'fresh process (forked from a zygote that never called the '
               'library) produces from the snapshotted arguments; plus a fixed '
               'batch in real new processes with PYTHONHASHSEED in {0,1,4242}. '
               'non-trivial = histories containing a quantize(); distinct = '
               'distinct observable end states'),
      'bounds': {'depth': depth, 'events': len(ev), 'models': 3},
      'alphabet': {'events': [label(e) for e in ev]},
      'exhaustive': True,
  }


class World:
  def __init__(self, mi):
    L = env.lib()
    self.L = L
    self.built = _built(mi)
    self.model = self.built.model
    self.model_digest = digest(self.model)
    self.q = [L.quantizer.Quantizer(self.model, copy.deepcopy(RECIPES[0])),
              L.quantizer.Quantizer(self.model, copy.deepcopy(RECIPES[1]))]
    self.cal = [None, None]
    self.quantized = [False, False]
    # the recipe each object must be holding when it is known from the calls
    # alone (constructor / load overwrite whatever was there); None after an
    # update, where the object's own export is used
    self.known_recipe = [copy.deepcopy(RECIPES[0]), copy.deepcopy(RECIPES[1])]
    self.held = []       # [(object, digest at the time it was handed out)]
    self.samples = {k: self.built.input_data(0, k) for k in ('mix', 'pos')}

  def hold(self, obj):
    self.held.append((obj, digest(obj)))

  def check_held(self):
    return [i for i, (o, d) in enumerate(self.held) if digest(o) != d]


_built_cache = {}


def _built(mi):
  if mi not in _built_cache:
    _built_cache[mi] = irm.build(model_irs()[mi])
  return _built_cache[mi]


def enabled(w, e):
  o, kind, arg = e
  if kind == 'validate':
    return w.quantized[o]
  if kind == 'quantize':
    cal = w.cal[o if arg == 0 else 1 - o]
    return cal is not None or not w.q[o].need_calibration
  if kind == 'calibrate':
    if arg[1] == 1 and w.cal[o] is None:
      return False
    return w.q[o].need_calibration
  return True


def step(w, e, sub, fails):
  """Apply one event to the world, checking purity clauses."""
  L = w.L
  o, kind, arg = e
  qt = w.q[o]

  def fail(k, d):
    fails.append(findings.fail(PROP, k, f'[{sub}] at {label(e)}: {d}', sub,
                               {'event': kind}, group=k + ':' + kind))
  try:
    if kind == 'load':
      r = copy.deepcopy(RECIPES[arg])
      qt.load_quantization_recipe(r)
      w.known_recipe[o] = copy.deepcopy(RECIPES[arg])
      if r != RECIPES[arg]:
        fail('recipe_argument_modified', '')
    elif kind == 'update':
      rg, op, m = UPDATES[arg]
      ru = md.rule(rg, op, m)
      cfg = (L.qtyping.OpQuantizationConfig.from_dict(ru['op_config'])
             if m != 'NQ' else None)
      w.known_recipe[o] = None
      qt.update_quantization_recipe(rg, L.qtyping.TFLOperationName(op), cfg,
                                    ru['algorithm_key'])
    elif kind == 'calibrate':
      k, prev = arg
      data = [copy.deepcopy(w.samples[n]) for n in DATASETS[k]]
      want = digest(data)
      p = w.cal[o] if prev else None
      res = qt.calibrate(data, previous_calibration_result=p)
      if digest(data) != want:
        fail('calibration_data_modified', '')
      w.cal[o] = res
      w.hold(res)
    elif kind == 'quantize':
      cal = w.cal[o if arg == 0 else 1 - o]
      snap_cal = copy.deepcopy(cal)
      snap_recipe = json.loads(json.dumps(
          w.known_recipe[o] if w.known_recipe[o] is not None
          else qt.get_quantization_recipe()))
      try:
        got = ('ok', hashlib.sha256(bytes(
            qt.quantize(cal).quantized_model)).hexdigest())
        w.quantized[o] = True
      except Exception as ex:  # pylint: disable=broad-except
        got = ('exc', type(ex).__name__)
      want = fresh_quantize(w.model, snap_recipe, snap_cal)
      if tuple(got) != tuple(want):
        fail('history_dependent_result', f'this process {got[0]}:{got[1][:12]} '
             f'fresh process {want[0]}:{want[1][:12]}')
    elif kind == 'validate':
      td = {'serving_default': [copy.deepcopy(w.samples['mix'])]}
      want = digest(td)
      qt.validate(td)
      if digest(td) != want:
        fail('test_data_modified', '')
  except Exception as ex:  # pylint: disable=broad-except
    # an exception is an allowed outcome; purity is still checked below
    pass
  if digest(w.model) != w.model_digest or qt.float_model is not w.model and \
      digest(qt.float_model) != w.model_digest:
    fail('model_bytes_modified', '')
  for i in w.check_held():
    fail('calibration_result_modified', f'result #{i} handed out earlier '
         'changed')
    w.held[i] = (w.held[i][0], digest(w.held[i][0]))


def run_hashseed(res):
  """(c) a fixed batch in real new processes with different hash seeds."""
  outs = {}
  fails = []
  for hs in ('0', '1', '4242'):
    envv = dict(os.environ, PYTHONHASHSEED=hs)
    p = subprocess.run([sys.executable, '-W', 'ignore', '-m',
                        'vf.oracles.c14_batch'], env=envv, capture_output=True,
                       text=True, cwd=env.VERIF)
    lines = [l for l in p.stdout.splitlines() if l.startswith('BATCH ')]
    if p.returncode != 0 or not lines:
      return [{'harness': p.stderr[-800:]}]
    outs[hs] = lines
    res['evals'] += len(lines)
  ref = outs['0']
  for hs, lines in outs.items():
    if lines != ref:
      bad = [a for a, b in zip(lines, ref) if a != b][:1]
      fails.append(findings.fail(PROP, 'hash_seed_dependent_result',
                                 f'PYTHONHASHSEED={hs}: {bad}', 'hashseed', {},
                                 group='hashseed'))
  res['hashes'].extend(ref)
  return fails


def run_case(case, note, skip):
  res = {'evals': 0, 'nontrivial': 0, 'hashes': [], 'fails': [], 'states': 0,
         'transitions': 0, 'traces': 0, 'counts': {}}
  only = case.get('only')
  if case.get('hashseed'):
    fs = run_hashseed(res)
    if fs and 'harness' in fs[0]:
      return {'harness_error': fs[0]['harness']}
    res['fails'] = fs
    res['traces'] = res['evals']
    res['states'] = 1
    res['transitions'] = res['evals']
    return res
  if case.get('repeat'):
    run_repeat(case, res)
    res['states'] = 1
    res['sample'] = {'repeat': 'same (model, recipe) three times in one process'}
    return res
  if case.get('cross'):
    run_cross(case, res)
    res['states'] = 1
    res['sample'] = {'cross_model': 'A then B (same names, other weights)'}
    return res
  ev = events()
  seen_states = set()
  stack = [[case['first']]]
  while stack:
    hist = stack.pop()
    sub = f"m{case['model']}:" + ' ; '.join(label(ev[i]) for i in hist)
    w = World(case['model'])
    fails = []
    ok = True
    for n, i in enumerate(hist):
      if not enabled(w, ev[i]):
        ok = False
        break
      step(w, ev[i], sub, fails if n == len(hist) - 1 else [])
    if not ok:
      continue
    res['evals'] += 1
    res['traces'] += 1
    res['transitions'] += len(hist)
    if any(ev[i][1] == 'quantize' for i in hist):
      res['nontrivial'] += 1
    st = digest([w.q[0].get_quantization_recipe(),
                 w.q[1].get_quantization_recipe(), w.cal, w.quantized])
    if st not in seen_states:
      seen_states.add(st)
      res['states'] += 1
      res['hashes'].append(st)
    if only is None or only == sub:
      res['fails'].extend(fails)
    if len(hist) < case['depth']:
      for i in range(len(ev) - 1, -1, -1):
        stack.append(hist + [i])
  res['sample'] = {'model': case['model'],
                   'history': [label(ev[case['first']])], 'depth': case['depth']}
  return res
