"""C05 - stored quantized constants decode to within one step of the originals."""
import numpy as np

from vf import fbparse, ir as irm, modes as md, universe
from vf.oracles import common

PROP = 'C05'
T = fbparse.T
TN = fbparse.TN
CONST_OPS = [('FULLY_CONNECTED', 'bias'), ('FULLY_CONNECTED', 'nobias'),
             ('CONV_2D', '1x1'), ('CONV_2D', '2x2same'),
             ('DEPTHWISE_CONV_2D', 'm1'), ('CONV_2D_TRANSPOSE', 'bias'),
             ('CONV_2D_TRANSPOSE', 'nobias'), ('BATCH_MATMUL', 'const'),
             ('BATCH_MATMUL', 'const_adjy'), ('EMBEDDING_LOOKUP', 'w4'),
             ('EMBEDDING_LOOKUP', 'w3'), ('EMBEDDING_LOOKUP', 'v5'),
             ('ADD', 'tc'), ('SUB', 'tc'),
             ('MUL', 'tc'), ('CONCATENATION', 'tc'),
             ('FULLY_CONNECTED', 'nokeepdims'), ('CONV_2D', '2x2valid_relu6'),
             ('DEPTHWISE_CONV_2D', 'm2'), ('BATCH_MATMUL', 'const_adjx'),
             ('ADD', 'ts'), ('MUL', 'ts'), ('ADD', 's0'), ('SUB', 's0'),
             ('MUL', 's0'), ('ADD', 'bc'), ('SUB', 'bc'),
             ('BATCH_MATMUL', 'const_b2')]
XSHAPES = ['S4', 'S43', 'R2', 'O13', 'O35']
ALLMODES = [m for m in md.ALL_MODES if m != 'NQ']
QUICK_KINDS = ['rand', 'ramp', 'neg', 'const', 'zero', 'outlier', 'tie', 'big']


def cases(tier, seed):
  kinds = list(irm.WEIGHT_KINDS)
  pools = [seed % 4, (seed + 1) % 4] if tier == 'quick' else [0, 1, 2, 3]
  for t, v in CONST_OPS:
    ar = irm.arity(t, v)
    for xs in XSHAPES:
      for wk in kinds:
        for pool in (pools if wk in ('rand', 'outlier', 'pos', 'neg') else pools[:1]):
          yield {'ir': irm.single([irm.op(t, v, [0] * ar, wk=wk)], x=xs,
                                  pool=pool)}


def cases2(tier, seed):
  """thorough: the constant-bearing operator behind another operator"""
  for t, v in CONST_OPS:
    ar = irm.arity(t, v)
    if ar == 0:
      continue
    for pre in ('TANH', 'FULLY_CONNECTED', 'ABS'):
      for wk in ('rand', 'outlier', 'neg', 'tie'):
        for pool in (0, 1, 2, 3):
          yield {'ir': irm.single([irm.op(pre), irm.op(t, v, [1] * ar, wk=wk)],
                                  pool=pool)}


def plan(tier, seed):
  return {
      'cases': (cases(tier, seed) if tier == 'quick' else
                __import__('itertools').chain(cases(tier, seed),
                                              cases2(tier, seed))),
      'chunk': 4,
      'budget_s': 240 if tier == 'quick' else 2400,
      'rule': ('E1 restricted to one-operator contexts: every constant-bearing '
               'operator variant x input shapes (rank 4/2, odd element counts, '
               'non-leading quantized dimension) x weight value pools x every '
               'accepted mode of the 19-mode alphabet; every element of every '
               'rewritten constant is decoded independently and compared. '
               'non-trivial = returned model in which at least one constant '
               'was rewritten'),
      'bounds': {'ops': CONST_OPS, 'xshapes': XSHAPES,
                 'weight_kinds': list(irm.WEIGHT_KINDS), 'modes': ALLMODES},
      'assumptions': ['per-element bound: 1/2 step (symmetric config) or 1 '
                      'step (asymmetric) times (1 + 2^(bits-21)) for the '
                      'float32 evaluation inside the library'],
  }


def recipe_plan(built, case):
  return {'uniform': [], 'perop': ALLMODES, 'io': ['none']}


def governing(meta, role, mode, is_weight_op):
  """(bits, symmetric) of the config that governs a constant operand."""
  k = md.kind(mode)
  if k == 'SRQ' and not (is_weight_op and role == 'W'):
    return md.act_bits(mode), md.act_sym(mode)
  w = md.wcfg(mode)
  return w['num_bits'], w['symmetric']


def oracle(ctx):
  fails = []
  fm, qm = ctx.fm, ctx.pm
  built = ctx.built
  modes, _ = ctx.modes
  fs, qs = fm.subs[0], qm.subs[0]
  rewritten = 0
  for k, (meta, mode) in enumerate(zip(built.ops[0], modes)):
    kd = md.kind(mode)
    for pos, ti in enumerate(fs.ops[k].inputs):
      if ti == -1:
        continue
      ft = fs.tensors[ti]
      if fm.buffers[ft.buffer] is None or ft.type != T.FLOAT32:
        continue
      role = meta.roles[pos]
      qt = qs.tensors[ti]
      raw = qm.tensor_bytes(qt)
      orig = np.frombuffer(fm.buffers[ft.buffer], dtype=np.float32).reshape(
          ft.shape).astype(np.float64)
      who = f'{meta.type}[{mode}] operand {pos}({role}) {ft.name} {ft.shape}'
      facts = {'type': meta.type, 'variant': meta.variant, 'mode': mode,
               'kind': kd, 'role': role, 'shape': ft.shape}
      grp = f'{meta.type}:{kd}:{role}'
      if qt.type == T.FLOAT32:
        if raw != fm.buffers[ft.buffer]:
          fails.append(ctx.fail('float_constant_changed', who, facts, grp))
        continue
      rewritten += 1
      want = fbparse.expected_nbytes(qt.type, qt.shape)
      if raw is None or want is None or len(raw) != want:
        fails.append(ctx.fail(
            'constant_length', f'{who}: {TN[qt.type]} buffer has '
            f'{None if raw is None else len(raw)} bytes, shape implies {want}',
            facts, grp))
        continue
      if qt.type == T.FLOAT16:
        got = np.frombuffer(raw, dtype=np.float16).reshape(qt.shape)
        if not np.array_equal(got, orig.astype(np.float32).astype(np.float16)):
          fails.append(ctx.fail('float16_value', who, facts, grp))
        continue
      if not qt.quantized():
        fails.append(ctx.fail('constant_without_params', who, facts, grp))
        continue
      nq = len(qt.scale)
      if nq != 1 and (qt.qdim >= len(qt.shape) or nq != qt.shape[qt.qdim]):
        fails.append(ctx.fail('param_length', f'{who}: {nq} scales, qdim '
                              f'{qt.qdim}', facts, grp))
        continue
      vals = fbparse.stored_values(qm, qt)
      lo, hi = fbparse.INT_RANGE[qt.type]
      if vals.min() < lo or vals.max() > hi:
        fails.append(ctx.fail('code_out_of_range', who, facts, grp))
      deq = fbparse.dequantize(vals, qt)
      sc = qt.scale
      if nq > 1:
        sh = [1] * len(qt.shape)
        sh[qt.qdim] = -1
        sc = sc.reshape(sh)
      if role == 'B' and qt.type in (T.INT32, T.INT64):
        ratio = orig / sc
        sat = np.abs(ratio) >= hi
        err = np.abs(vals.astype(np.float64) - ratio)
        tol = 0.5 + np.abs(ratio) * 2.0 ** -21 + 1e-6
        if np.any((err > tol) & ~sat):
          i = int(np.argmax(np.where(sat, 0, err - tol)))
          fails.append(ctx.fail(
              'bias_value', f'{who}: element {i} stored '
              f'{int(vals.ravel()[i])}, bias/scale = {ratio.ravel()[i]}',
              facts, grp))
        continue
      bits, sym = governing(meta, role, mode, meta.type in irm.WEIGHT_OPS)
      steps = (0.5 if sym else 1.0) * (1 + 1e-4) + 2.0 ** (bits - 21)
      err = np.abs(deq - orig) / sc
      if np.any(err > steps):
        i = int(np.argmax(err))
        fails.append(ctx.fail(
            'decode_error', f'{who}: element {i} original {orig.ravel()[i]} '
            f'decodes to {deq.ravel()[i]} ({err.ravel()[i]:.3f} steps, allowed '
            f'{steps:.3f})', facts, grp))
  if rewritten == 0 and ctx.outcome.model != built.model:
    pass
  return fails


def run_case(case, note, skip):
  return common.run_graph_case(PROP, case, note, skip, recipe_plan, oracle)
