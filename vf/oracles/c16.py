"""C16 - large-model (external buffer) serialization equals the in-place form."""
import os

import numpy as np
import flatbuffers
from ai_edge_litert import schema_py_generated as s

from vf import enum_graphs as eg
from vf import fbparse, ir as irm, lite, pipeline, universe
from vf.oracles import common

PROP = 'C16'
THR = 'AI_EDGE_QUANTIZER_VERIF_LARGE_MODEL_THRESHOLD'
PLAN = {'shipped': True, 'uniform': ['SRQ8s', 'DRQ4c', 'WO4a', 'FP16'],
        'perop': ['NQ', 'SRQ8a', 'WO4c', 'FP16'], 'io': ['none', 'out8'],
        'io_on': ('shipped',)}
PLAN_3 = {'shipped': True, 'io': ['none']}
PLAN_Q2 = {'shipped': True, 'uniform': [], 'perop': ['NQ', 'SRQ8a', 'WO4c'],
           'io': ['none']}


def cases(tier):
  for xs in ('S4', 'S43', 'O13', 'O35'):
    for c in universe.graph_cases([(1, eg.T21 + eg.U, 'allx', 'none')],
                                  {'rp': 'p'}):
      c['ir']['x'] = xs
      yield c
  # constants with identical bytes (all-zero / all-equal pools) and float
  # models that already store their constants outside the flatbuffer
  for wk in ('zero', 'const'):
    for a, b in ((('FULLY_CONNECTED', 'bias'), ('FULLY_CONNECTED', 'bias')),
                 (('CONV_2D', '1x1'), ('CONV_2D', '1x1')),
                 (('ADD', 'tc'), ('MUL', 'tc')),
                 (('FULLY_CONNECTED', 'nobias'), ('EMBEDDING_LOOKUP', 'w4'))):
      for chain in (0, 1):
        ops = [irm.op(a[0], a[1], [0] * irm.arity(*a), wk=wk),
               irm.op(b[0], b[1], [chain if irm.arity(*b) else 0] *
                      irm.arity(*b), wk=wk)]
        yield {'ir': irm.single(ops), 'rp': 'p'}
  for c in universe.graph_cases([(1, irm.WEIGHT_OPS + ('ADD', 'TANH'), 'all',
                                  'none')], {'rp': 'p'}):
    c['ir']['external'] = True
    yield c
  # a zero-element constant next to ordinary ones (data present, length 0)
  for c in universe.graph_cases([(1, irm.WEIGHT_OPS + ('ADD', 'RESHAPE'),
                                  'all', 'none')], {'rp': 'p'}):
    c['ir']['zlen'] = True
    yield c
  yield from universe.graph_cases(
      [(2, eg.T21 + eg.U, 'first' if tier == 'quick' else 'all', 'one')],
      {'rp': 'q2' if tier == 'quick' else 'p'})
  yield from universe.graph_cases([(3, eg.TTOPO, 'first', 'one')],
                                  {'rp': 'p3'})


def plan(tier, seed):
  return {
      'cases': cases(tier), 'chunk': 16,
      'budget_s': 285 if tier == 'quick' else 3300,
      'rule': ('E1 + hook: every (model, recipe) of the universe for which '
               'quantize() returns is quantized twice in the same worker, '
               'through the ordinary path and - with the guarded hook lowering '
               'the threshold to -1 - through the large-model path; oracle: '
               'every external buffer is 16-byte aligned, lies after the '
               'flatbuffer, in bounds, pairwise disjoint and selects exactly the '
               'bytes the ordinary path embeds; with buffers moved back the two '
               'object trees re-pack to identical bytes; LiteRT loads both and '
               'computes identical outputs. non-trivial = returned model with at '
               'least one constant buffer; distinct = distinct sha256 of the '
               'large form'),
      'bounds': {'value_pool': seed % 4,
                 'xshapes': ['S4', 'S43', 'O13', 'O35']},
      'alphabet': {'T21+U': eg.T21 + eg.U, 'Ttopo': eg.TTOPO,
                   'recipe_plans': {'p': PLAN, 'p3': PLAN_3}},
      'assumptions': ['the hook only changes which existing branch is taken',
                      'buffer sizes are those of the generated graphs '
                      '(2 bytes .. 256 bytes), not gigabytes'],
  }


def _repack(obj):
  b = flatbuffers.Builder(1024)
  b.Finish(obj.Pack(b), file_identifier=b'TFL3')
  return bytes(b.Output())


def oracle(ctx):
  fails = []
  small = ctx.outcome.model
  # The large path runs on a Quantizer object that has ALREADY serialized the
  # same model under another recipe (a self-contained two-step history, so the
  # case replays on its own): the bytes must not depend on that earlier call.
  import copy as _copy
  from vf import modes as _md
  L_ = __import__('vf.env', fromlist=['lib']).lib()
  os.environ[THR] = '-1'
  try:
    qt = L_.quantizer.Quantizer(ctx.built.model,
                                [_md.rule('.*', '*', 'WO8c'),
                                 _md.rule('.*', 'ADD', 'NQ')])
    try:
      qt.quantize()
    except Exception:
      pass
    qt.load_quantization_recipe(_copy.deepcopy(ctx.recipe))
    large = bytes(qt.quantize(_copy.deepcopy(ctx.outcome.cal_snapshot)
                              ).quantized_model)
  except Exception as e:
    return [ctx.fail('large_path_raises', f'{type(e).__name__}: {e}'[:200])]
  finally:
    os.environ.pop(THR, None)
  L = s.ModelT.InitFromPackedBuf(large, 0)
  S = s.ModelT.InitFromPackedBuf(small, 0)
  if large == small and any(b.data is not None and len(b.data)
                            for b in S.buffers):
    return [ctx.fail('hook_inactive', 'large-model path not taken')]
  if len(L.buffers) != len(S.buffers):
    return [ctx.fail('buffer_count', f'{len(S.buffers)} -> {len(L.buffers)}')]
  ranges = []
  nconst = 0
  nempty = 0
  for i, (lb, sb) in enumerate(zip(L.buffers, S.buffers)):
    sdata = bytes(np.asarray(sb.data, dtype=np.uint8).tobytes()) \
        if sb.data is not None and len(sb.data) else None
    has_inline = lb.data is not None and len(lb.data)
    if sdata is None and sb.data is not None and not isinstance(sb.data, int):
      # data present but empty (zero-element constant): the large form either
      # keeps the empty vector inline or points at zero bytes at an aligned,
      # in-bounds offset; it must not select any byte
      off, size = int(lb.offset or 0), int(lb.size or 0)
      nempty += 1
      if has_inline or size != 0 or off % 16 or off > len(large):
        fails.append(ctx.fail('zero_length_buffer',
                              f'buffer {i}: offset {off} size {size}'))
      continue
    if sdata is None:
      if has_inline or (lb.offset or 0) > 1 or (lb.size or 0) > 1:
        fails.append(ctx.fail('empty_buffer_gained_data', f'buffer {i}'))
      continue
    nconst += 1
    off, size = int(lb.offset or 0), int(lb.size or 0)
    who = f'buffer {i} ({len(sdata)} bytes): offset {off} size {size}'
    if has_inline:
      fails.append(ctx.fail('buffer_still_inline', who))
      continue
    if off % 16:
      fails.append(ctx.fail('buffer_misaligned', who))
    if size != len(sdata):
      fails.append(ctx.fail('buffer_size', who))
    if off <= 1 or off + size > len(large):
      fails.append(ctx.fail('buffer_out_of_bounds', f'{who}, file {len(large)}'))
      continue
    if large[off:off + size] != sdata:
      fails.append(ctx.fail('buffer_bytes_differ', who))
    ranges.append((off, off + size, i))
    lb.data = np.frombuffer(sdata, dtype=np.uint8)
    lb.offset = 0
    lb.size = 0
  ranges.sort()
  for (a0, a1, i), (b0, b1, j) in zip(ranges, ranges[1:]):
    if b0 < a1:
      fails.append(ctx.fail('buffers_overlap', f'buffers {i} and {j}'))
  if ranges:
    # the flatbuffer itself ends before the first external buffer: re-parsing
    # must not depend on any byte at or after it
    first = ranges[0][0]
    try:
      head = s.ModelT.InitFromPackedBuf(large[:first], 0)
      if len(head.buffers) != len(L.buffers):
        fails.append(ctx.fail('buffer_inside_flatbuffer', f'first offset {first}'))
    except Exception as e:
      fails.append(ctx.fail('buffer_inside_flatbuffer',
                            f'first offset {first}: {type(e).__name__}'))
  for sb in S.buffers:
    sb.offset = 0
    sb.size = 0
  if not fails and _repack(L) != _repack(S):
    fails.append(ctx.fail('other_fields_differ', 'normalised object trees '
                          're-pack to different bytes'))
  try:
    o1, _ = lite.run_signature(small, ctx.data, ctx.built.keys[0])
  except Exception:
    return fails   # C01's subject
  try:
    o2, _ = lite.run_signature(large, ctx.data, ctx.built.keys[0])
    for k in o1:
      if not np.array_equal(o1[k], o2[k]):
        fails.append(ctx.fail('outputs_differ', k))
  except Exception as e:
    fails.append(ctx.fail('large_form_not_loadable',
                          f'{type(e).__name__}: {e}'[:200]))
  if nconst:
    ctx.large_hash = pipeline.sha(large)
  return fails


def run_case(case, note, skip):
  return common.run_graph_case(PROP, case, note, skip,
                               {'p': PLAN, 'q2': PLAN_Q2, 'p3': PLAN_3}[
                                   case.get('rp', 'p')], oracle)
