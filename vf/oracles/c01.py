"""C01 - quantize() returns a well-formed, runtime-loadable model or raises."""
import numpy as np

from vf import enum_graphs as eg
from vf import ir as irm
from vf import lite, universe, wellformed
from vf.oracles import common

PROP = 'C01'

PLAN_SMALL = {
    'shipped': True, 'uniform': ['SRQ8s', 'DRQ4c', 'WO8a'],
    'perop': ['NQ', 'SRQ8a', 'SRQ16', 'DRQ8c', 'WO8c', 'FP16'],
    'io': ['none', 'both8', 'out8', 'in8', 'both16'],
    'io_on': ('uniform', 'shipped'),
}
PLAN_N3 = {
    'shipped': True, 'uniform': [],
    'perop': ['NQ', 'SRQ8a', 'SRQ16', 'DRQ8c'],
    'io': ['none', 'both8'], 'io_on': ('shipped',),
}
FILES5 = ['default_a8w8', 'default_a16w8', 'default_af32w8float',
          'default_af32w4float', 'dynamic_wi8_afp32']
PLAN_SMALL_QUICK = {
    'shipped': FILES5, 'uniform': ['SRQ8s', 'WO8a'],
    'perop': ['NQ', 'SRQ8a', 'SRQ16', 'DRQ8c', 'WO8c'],
    'io': ['none', 'both8', 'out8', 'in8', 'both16'],
    'io_on': ('uniform',),
}
PLAN_N3_QUICK = {
    'shipped': ['default_a8w8', 'default_a16w8', 'dynamic_wi8_afp32'],
    'uniform': [],
    'perop': ['NQ', 'SRQ8a'],
    'io': ['none'], 'io_on': ('shipped',),
}
PLAN_N4 = {
    'shipped': True, 'uniform': [], 'perop': ['NQ', 'SRQ8a'],
    'io': ['none'],
}


def spec(tier):
  small = 'smallq' if tier == 'quick' else 'small'
  s = [(1, eg.T21 + eg.U, 'allx', 'one', small),
       (2, eg.T21 + eg.U, 'all' if tier == 'quick' else 'allx', 'one', small)]
  if tier == 'quick':
    s.append((3, eg.TTOPO, 'first', 'one', 'n3q'))
  else:
    s.append((3, eg.TTOPO, 'first', 'one', 'n3'))
    s.append((4, eg.TCORE, 'first', 'one', 'n4'))
  return s


PLAN_BLK = {'shipped': False, 'uniform': [],
            'perop': ['NQ', 'BLK8', 'SRQ8a', 'WO8c'], 'io': ['none']}
PLANS = {'blk': PLAN_BLK, 'small': PLAN_SMALL, 'smallq': PLAN_SMALL_QUICK, 'n3': PLAN_N3, 'n3q': PLAN_N3_QUICK,
         'n4': PLAN_N4}


BLK_TYPES = ['FULLY_CONNECTED', 'ADD', 'TANH', 'RESHAPE', 'ABS']


def blk_cases():
  """rank-3 inputs: the only shape the op-replacement (blockwise) mode takes."""
  for n in (1, 2):
    for c in universe.graph_cases(
        [(n, BLK_TYPES, {'FULLY_CONNECTED': ['bias', 'nobias', 'bias_relu']},
          'one')], {'rp': 'blk'}):
      if any(o['t'] == 'FULLY_CONNECTED' for o in c['ir']['subgraphs'][0]['ops']):
        c['ir']['x'] = 'R3'
        yield c


PLAN_SIG = {'shipped': ['default_a8w8'], 'uniform': ['SRQ8s'],
            'perop': ['NQ', 'SRQ8a'], 'io': ['none', 'out8'],
            'io_on': ('shipped',)}
PLANS['sig'] = PLAN_SIG


PLANS['chain'] = {'shipped': True, 'uniform': ['FP16', 'SRQ8s'], 'io': ['none']}
PLANS['n4u'] = {'uniform': ['SRQ8a', 'SRQ16', 'WO8c'], 'io': ['none']}
PLANS['star'] = {'uniform': [], 'perop': ['SRQ8a', 'SRQ8s', 'SRQ16'],
                 'io': ['none']}
PLAN_MULTI = {'shipped': True, 'uniform': ['SRQ8s', 'WO4c'], 'io': ['none']}
PLANS['multi'] = PLAN_MULTI
MULTI_TYPES = eg.TTOPO + ['CONV_2D', 'EMBEDDING_LOOKUP', 'SOFTMAX']


def cases(tier, sigrev=False, blk=True, n4=True):
  if blk:
    yield from blk_cases()
  for n in ((4, 5) if tier == 'quick' else (4, 5, 6)):
    for g in eg.chains(n, ['FULLY_CONNECTED', 'TANH', 'ABS'], exports='mid'):
      yield {'ir': g, 'rp': 'chain'}
  # four-operator DAGs over two tiny alphabets (diamonds, tensors with three
  # consumers, joins): uniform recipes only, to bound the cost
  if tier == 'quick' and n4:
    yield from universe.graph_cases(
        [(4, ['FULLY_CONNECTED', 'ADD', 'TANH'], 'first', 'none')],
        {'rp': 'n4u'})
  # stars: one tensor with 3-4 consumers that each ask for a different
  # quantized form (three or four ops inserted behind the same tensor)
  star_types = [('FULLY_CONNECTED', 'bias'), ('TANH', ''), ('ADD', 'tc')]
  import itertools as _it
  for k in (3, 4):
    for combo in _it.product(star_types, repeat=k):
      for src in (0, 1):
        ops = ([irm.op('FULLY_CONNECTED', 'nobias', [0])] if src else []) + [
            irm.op(t, v, [src]) for t, v in combo]
        yield {'ir': irm.single(ops), 'rp': 'star'}
  yield from universe.multi_cases(
      MULTI_TYPES if tier == 'quick' else eg.T21 + eg.U, {'rp': 'multi'})
  for n, types, variants, exports, pname in spec(tier):
    yield from universe.graph_cases([(n, types, variants, exports)],
                                    {'rp': pname}, sigrev=sigrev and n <= 2,
                                    sigrev_extra={'rp': 'sig'})


def plan(tier, seed):
  return {
      'cases': cases(tier),
      'budget_s': 285 if tier == 'quick' else 3000,
      'chunk': 16,
      'rule': ('E1: every complete graph history (AddOp*/Export) within the '
               'bounds x every recipe of the plan x calibration [x_mix] is '
               'built, calibrated and quantized with the real API; each '
               'returned model is parsed independently, checked against the '
               'structural invariant and allocated+invoked in LiteRT through '
               'the signature runner and plain I/O. non-trivial = quantize() '
               'returned bytes different from the float model; distinct = '
               'distinct sha256 of those bytes'),
      'bounds': {'spec': [[n, len(t), v, e, p] for n, t, v, e, p in spec(tier)],
                 'value_pool': seed % 4},
      'alphabet': {'T21+U': eg.T21 + eg.U, 'Ttopo': eg.TTOPO, 'Tcore': eg.TCORE,
                   'recipe_plans': PLANS},
      'assumptions': [
          'graphs outside the operator/variant alphabet and above the depth '
          'bound are not covered',
          'LiteRT interpreter of this image is the runtime reference',
      ],
  }


def _second_call_wanted(ctx):
  """Quick tier, three-operator family, per-operator recipes: only the
  assignments that alternate between float and quantized along the operator
  list (the most inserted ops); the thorough tier ('n3') takes all."""
  if ctx.case.get('rp') != 'n3q' or not ctx.subkey.startswith('R3:'):
    return True
  q = [m not in ('-', 'NQ') for m in ctx.subkey[3:].split('|')[0].split(',')]
  return all(a != b for a, b in zip(q, q[1:]))


def oracle(ctx):
  fails = _check_model(ctx, ctx.outcome.model, '')
  # "never returns a model that violates any of these": also the model returned
  # by a SECOND quantize() on the same Quantizer object (shipped recipes, and
  # every recipe of the three-operator / chain / star / blockwise families,
  # where per-operator rules insert ops at float boundaries)
  if (ctx.subkey.startswith('R1:') or ctx.case.get('rp') in
      ('n3q', 'n3', 'chain', 'star', 'blk')) and ctx.outcome.qt is not None \
      and _second_call_wanted(ctx):
    import copy
    try:
      again = bytes(ctx.outcome.qt.quantize(
          copy.deepcopy(ctx.outcome.cal_snapshot)).quantized_model)
    except Exception:
      again = None   # raising is allowed
    if again is not None and again != ctx.outcome.model:
      fails.extend(_check_model(ctx, again, 'second_call_'))
  return fails


def _check_model(ctx, model, prefix):
  from vf import fbparse
  fails = []
  pm = ctx.pm if not prefix else fbparse.parse(model)
  for kind, detail in wellformed.check(pm):
    fails.append(ctx.fail(prefix + kind, detail, facts=_facts(ctx, kind, detail)))
  # runtime: allocate + invoke, signature runner and plain I/O
  try:
    it = lite.interp(model)
  except Exception as e:
    fails.append(ctx.fail(prefix + 'interp_allocate', f'{type(e).__name__}: {e}'[:400],
                          facts=_facts(ctx, 'interp_allocate', str(e))))
    return fails
  for si in range(len(ctx.built.ops)):
    try:
      data = ctx.data if si == 0 else ctx.built.input_data(si, ctx.dkind)
      lite.run_signature(model, data, ctx.built.keys[si], it=it)
    except Exception as e:
      fails.append(ctx.fail(prefix + 'interp_invoke_signature',
                            f'signature {ctx.built.keys[si]}: '
                            f'{type(e).__name__}: {e}'[:400],
                            facts=_facts(ctx, 'interp_invoke_signature', str(e))))
  try:
    it2 = lite.interp(model)
    lite.run_plain(model,
                   [ctx.data[a] for a, _, _ in ctx.built.inputs[0]], it=it2)
  except Exception as e:
    fails.append(ctx.fail(prefix + 'interp_invoke_plain',
                          f'{type(e).__name__}: {e}'[:400],
                          facts=_facts(ctx, 'interp_invoke_plain', str(e))))
  return fails


def _facts(ctx, kind, detail):
  from vf import facts
  return facts.graph_facts(ctx, kind, detail)


def run_case(case, note, skip):
  return common.run_graph_case(PROP, case, note, skip,
                               PLANS[case.get('rp', 'small')], oracle)
