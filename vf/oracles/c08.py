"""C08 - shipped recipes quantize every supported-op graph without rejection."""
from vf import enum_graphs as eg
from vf import universe
from vf.oracles import common

PROP = 'C08'
PLAN = {'shipped': True, 'io': ['none']}


def spec(tier):
  s = [(1, eg.T21 + eg.U, 'allx', 'one'),
       (2, eg.T21 + eg.U, 'all' if tier == 'quick' else 'allx', 'one'),
       (3, eg.TTOPO, 'first', 'one')]
  if tier == 'thorough':
    s.append((3, eg.TTOPO + ['STRIDED_SLICE', 'SOFTMAX', 'MUL'], 'first', 'one'))
    s.append((4, eg.TCORE, 'first', 'one'))
  return s


def _cases(tier):
  yield from universe.multi_cases(
      eg.TTOPO + ['CONV_2D', 'EMBEDDING_LOOKUP', 'SOFTMAX', 'MUL']
      if tier == 'quick' else eg.T21 + eg.U)
  if tier == 'quick':
    for types in (['FULLY_CONNECTED', 'ADD', 'TANH'],
                  ['FULLY_CONNECTED', 'CONCATENATION', 'ABS']):
      yield from universe.graph_cases([(4, types, 'first', 'none')])
  yield from universe.graph_cases(spec(tier), sigrev=True)


def plan(tier, seed):
  return {
      'cases': _cases(tier),
      'budget_s': 240 if tier == 'quick' else 3000,
      'chunk': 16,
      'rule': ('E1: every complete graph history within the bounds x the 5 '
               'shipped recipe files + recipe.dynamic_wi8_afp32(), loaded '
               'unchanged, calibrated on [x_mix] when required; oracle: '
               'calibrate()/quantize() raise nothing and return a model. '
               'non-trivial = returned bytes differ from the float model; '
               'distinct = distinct sha256'),
      'bounds': {'spec': [[n, len(t), v, e] for n, t, v, e in spec(tier)],
                 'value_pool': seed % 4},
      'alphabet': {'T21+U': eg.T21 + eg.U, 'Ttopo': eg.TTOPO,
                   'Tcore': eg.TCORE},
      'assumptions': ['float run of the model on the calibration input is '
                      'finite (otherwise the case is skipped and counted)'],
  }


def on_exception(ctx):
  o = ctx.outcome
  from vf import facts
  return [ctx.fail('rejected_' + o.stage,
                   f'{o.exc_type}: {o.exc_msg}'[:300],
                   facts=facts.graph_facts(ctx, 'rejected', o.exc_msg),
                   group=o.exc_key())]


def oracle(ctx):
  return []


def run_case(case, note, skip):
  return common.run_graph_case(PROP, case, note, skip, PLAN, oracle,
                               on_exception=on_exception,
                               on_load_refused=on_exception)
