"""C13 - every accepted (op, config) pair is runtime-sound; others are refused
(E3: exhaustive sweep of the finite config lattice)."""
import copy
import itertools
import json

import numpy as np

from vf import env, fbparse, findings, ir as irm, modes as md, pipeline
from vf import skeleton, universe
from vf.oracles import common

PROP = 'C13'
SELECTORS = list(irm.SUPPORTED) + ['INPUT', 'OUTPUT']
ACTS = [None, (8, True), (8, False), (16, True), (16, False)]
ALGS = [md.MMU, md.FC_]


def lattice():
  for act, wb, wsym, wgran, wdt, cp, edq, alg in itertools.product(
      ACTS, (4, 8, 16), (True, False), ('TENSORWISE', 'CHANNELWISE'),
      ('INT', 'FLOAT'), ('INTEGER', 'FLOAT'), (False, True), ALGS):
    c = md.cfg(act=act[0] if act else None, wbits=wb, wsym=wsym, wgran=wgran,
               wdtype=wdt, cp=cp, edq=edq, asym=act[1] if act else False)
    yield alg, c


def label(alg, c):
  a = c.get('activation_tensor_config')
  w = c['weight_tensor_config']
  return (f"{'mmu' if alg == md.MMU else 'fc'}|a="
          f"{(str(a['num_bits']) + ('s' if a['symmetric'] else 'a')) if a else '-'}"
          f"|w={w['num_bits']}{'s' if w['symmetric'] else 'a'}"
          f"{w['granularity'][0]}{w['dtype'][0]}|{c['compute_precision'][:3]}"
          f"|edq={int(c['explicit_dequantize'])}")


def mode_name(alg, c):
  """Register (if needed) and return a mode name for an accepted config."""
  m = universe.mode_of_cfg(alg, c)
  if m is not None:
    return m
  a = c.get('activation_tensor_config')
  if alg == md.FC_:
    kind = 'FP16'
  elif a is not None:
    kind = 'SRQ'
  elif c['compute_precision'] == 'INTEGER':
    kind = 'DRQ'
  else:
    kind = 'WO'
  name = f'{kind}l{len(md.MODES)}'
  md.MODES[name] = (alg, json.loads(json.dumps(c)))
  return name


def plan(tier, seed):
  cases = [{'op': op, 'tier': tier} for op in SELECTORS]
  if tier == 'thorough':
    cases += [{'op': op, 'tier': tier, 'pool': p} for op in SELECTORS
              for p in (1, 2, 3)]
  return {
      'cases': cases, 'chunk': 1, 'budget_s': 285 if tier == 'quick' else 1800,
      'rule': ('E3: the full finite lattice 23 operator selectors x activation '
               '{none, 8/16 x sym/asym} x weight bits {4,8,16} x {sym,asym} x '
               '{tensor,channel} x {INT,FLOAT} x compute precision x '
               'explicit_dequantize x 2 algorithms = 22080 points; for each: '
               '(1) update for the specific op accepts or raises ValueError; '
               '(2) accept-set at update time == accept-set at "*" resolution; '
               '(3) every accepted pair: every variant of the single-op model '
               'quantizes, LiteRT prepares and invokes it, and the C06/C07 bound '
               'holds; (4) a refused pair under "*" leaves the operator '
               'byte-identical. non-trivial = accepted (op, config) pairs'),
      'bounds': {'lattice_points': 22080, 'selectors': SELECTORS,
                 'value_pool': seed % 4},
      'exhaustive': True,
      'assumptions': ['numeric soundness of an accepted pair is judged with '
                      'the C06/C07 oracles on the input alphabet {mix, pos}'],
  }


def op_models(op, tier='quick'):
  """IRs exercising one operator selector."""
  if op in ('INPUT', 'OUTPUT'):
    return [irm.single([irm.op('FULLY_CONNECTED', 'bias')]),
            irm.single([irm.op('TANH')])]
  out = []
  for v, ar in irm.variants_of(op, extended=True):
    for xs in (('S4', 'S43') if op in ('EMBEDDING_LOOKUP', 'DEPTHWISE_CONV_2D',
                                      'FULLY_CONNECTED') else ('S4',)):
      out.append(irm.single([irm.op(op, v, [0] * ar)], x=xs))
  if True:
    # the operator inside a small context: fed by / feeding another operator
    v, ar = irm.VARIANTS[op][0]
    if ar >= 1:
      out.append(irm.single([irm.op('ABS', '', [0]), irm.op(op, v, [1] * ar)]))
      out.append(irm.single([irm.op('TANH', '', [0]), irm.op(op, v, [1] * ar)]))
    nout = 2 if op == 'SPLIT' else 1
    out.append(irm.single([irm.op(op, v, [0] * ar), irm.op('ABS', '', [1])]))
    out.append(irm.single([irm.op(op, v, [0] * ar),
                           irm.op('FULLY_CONNECTED', 'bias', [nout])]))
  return out


def _f(kind, detail, sub, facts=None, group=''):
  return findings.fail(PROP, kind, detail, sub, facts or {}, group or kind)


def run_case(case, note, skip):
  L = env.lib()
  from vf.oracles import c06, c07
  op = case['op']
  only = case.get('only')
  res = {'evals': 0, 'nontrivial': 0, 'hashes': [], 'fails': [], 'states': 0,
         'transitions': 0, 'traces': 0, 'counts': {}}
  cnt = res['counts']
  opname = L.qtyping.TFLOperationName(op)
  irs = [dict(g, pool=case.get('pool', env.seed() % 4))
         for g in op_models(op, case.get('tier', 'quick'))]
  irs = [g for g in irs if irm.build(g) is not None]
  builts = [irm.build(g) for g in irs]
  floats = {}
  for bi, b in enumerate(builts):
    for dk in ('mix', 'pos'):
      try:
        data, fout, finite, ftens = pipeline.float_run(b, dk)
      except Exception:
        continue
      if finite:
        floats[(bi, dk)] = (data, fout, ftens)
  first_answer = {}
  for alg, c in lattice():
    lab = f'{op}|{label(alg, c)}'
    if only is not None and not only.startswith(lab) and \
        not only.endswith('|resweep'):
      continue
    res['states'] += 1
    res['evals'] += 1
    res['traces'] += 1
    # (0) constructing the config
    try:
      cobj = L.qtyping.OpQuantizationConfig.from_dict(json.loads(json.dumps(c)))
    except ValueError:
      cnt['refused_by_config_constructor'] = cnt.get(
          'refused_by_config_constructor', 0) + 1
      continue
    except Exception as e:  # pylint: disable=broad-except
      res['fails'].append(_f('constructor_exception_type',
                             f'{lab}: {type(e).__name__}: {e}'[:200], lab))
      continue
    # (1) update for the specific operator
    qt = L.quantizer.Quantizer(b'x')
    accepted = False
    try:
      qt.update_quantization_recipe('.*', opname, cobj, alg)
      accepted = True
    except ValueError:
      pass
    except Exception as e:  # pylint: disable=broad-except
      res['fails'].append(_f('update_exception_type',
                             f'{lab}: {type(e).__name__}: {e}'[:200], lab))
      continue
    res['transitions'] += 1
    # (2) '*' resolution agrees
    q2 = L.quantizer.Quantizer(b'x')
    try:
      q2.update_quantization_recipe('.*', L.qtyping.TFLOperationName('*'),
                                    cobj, alg)
      ralg, _ = q2._recipe_manager.get_quantization_configs(opname, 'any;')
      star = str(getattr(ralg, 'value', ralg)) != md.NOQ
    except Exception as e:  # pylint: disable=broad-except
      res['fails'].append(_f('star_rule_exception',
                             f'{lab}: {type(e).__name__}: {e}'[:200], lab))
      continue
    res['transitions'] += 1
    if star != accepted:
      res['fails'].append(_f(
          'accept_sets_differ', f'{lab}: update for the specific operator '
          f'{"accepts" if accepted else "refuses"}, "*" resolution '
          f'{"selects" if star else "skips"} it', lab))
    first_answer[lab] = accepted
    cnt['accepted' if accepted else 'refused_at_update'] = cnt.get(
        'accepted' if accepted else 'refused_at_update', 0) + 1
    if not accepted and not star:
      # (4) refused pair under '*': operator untouched.  One model suffices.
      if op not in ('INPUT', 'OUTPUT') and builts:
        b = builts[0]
        key = (0, 'mix') if (0, 'mix') in floats else (0, 'pos')
        if key in floats:
          sub = lab + '|star_untouched'
          if only is None or only == sub:
            note(sub)
            recipe = [{'regex': '.*', 'operation': '*', 'algorithm_key': alg,
                       'op_config': json.loads(json.dumps(c))}]
            o = pipeline.quantize(b.model, recipe, [floats[key][0]], b.keys[0])
            res['transitions'] += 1
            if o.returned:
              fm, qm = fbparse.parse(b.model), fbparse.parse(o.model)
              sm = skeleton.extract(fm, qm, 0)
              ok = len(sm.opmap) == 1
              if ok:
                fo, qo = fm.subs[0].ops[0], qm.subs[0].ops[sm.opmap[0]]
                for fi, qi in zip(fo.inputs + fo.outputs,
                                  qo.inputs + qo.outputs):
                  if fi == -1:
                    continue
                  ft, qt_ = fm.subs[0].tensors[fi], qm.subs[0].tensors[qi]
                  if ft.type != qt_.type or \
                      fm.buffers[ft.buffer] != qm.buffers[qt_.buffer]:
                    ok = False
              if not ok:
                res['fails'].append(_f('refused_pair_changed_operator', sub, sub))
            elif o.stage != 'load':
              res['fails'].append(_f('refused_pair_fails_later',
                                     f'{sub}: {o.exc_key()}', sub))
      continue
    if not accepted:
      continue
    # (3) accepted pair: runtime soundness on every variant
    res['nontrivial'] += 1
    res['hashes'].append(lab)
    mode = mode_name(alg, c)
    kd = md.kind(mode)
    for (bi, dk), (data, fout, ftens) in floats.items():
      b = builts[bi]
      sub = f'{lab}|m{bi}|d={dk}'
      if only is not None and only != sub:
        continue
      if sub in skip:
        continue
      note(sub)
      recipe = [md.rule('.*', op, mode)]
      o = pipeline.quantize(b.model, recipe, [data], b.keys[0])
      res['transitions'] += 1
      meta = b.ops[0][0]
      facts = {'types': [m.type for m in b.ops[0]],
               'variants': [m.variant for m in b.ops[0]],
               'modes': [mode if m.type == op else 'NQ' for m in b.ops[0]],
               'upstream': list(range(len(b.ops[0]))),
               'wshapes': [list(b.const(0, m.weight).shape)
                           if m.weight is not None else None for m in b.ops[0]],
               'op': op, 'detail': ''}
      grp = f'{op}:{kd}:{meta.variant}'
      if not o.returned:
        facts['detail'] = o.exc_msg or ''
        res['fails'].append(_f('accepted_pair_fails_to_quantize',
                               f'{sub}: {o.exc_key()}', sub, facts, grp))
        continue
      ctx = common.Ctx(PROP, {'ir': irs[bi]}, b, sub, recipe, dk, data, fout,
                       ftens, o)
      try:
        if kd == 'SRQ':
          fs = c07.oracle(ctx)
        else:
          fs = c06.oracle(ctx)
      except Exception as e:  # pylint: disable=broad-except
        fs = [ctx.fail('oracle_exception', f'{type(e).__name__}: {e}'[:300])]
      for f in fs:
        ff = dict(facts)
        ff.update({k: v for k, v in (f.get('facts') or {}).items()
                   if k in ('detail', 'upstream')})
        if not ff.get('detail'):
          ff['detail'] = f.get('detail', '')
        res['fails'].append(_f('accepted_pair_' + f['kind'],
                               f"{sub}: {f['detail']}"[:400], sub, ff, grp))
  # the accept/refuse answer is a function of (algorithm, op, config) only:
  # sweep again in the opposite order and compare
  if only is None or only.endswith('|resweep'):
    for alg, c in reversed(list(lattice())):
      lab = f'{op}|{label(alg, c)}'
      try:
        cobj = L.qtyping.OpQuantizationConfig.from_dict(json.loads(json.dumps(c)))
      except Exception:  # pylint: disable=broad-except
        continue
      try:
        L.quantizer.Quantizer(b'x').update_quantization_recipe(
            '.*', opname, cobj, alg)
        acc = True
      except ValueError:
        acc = False
      except Exception:  # pylint: disable=broad-except
        continue
      res['transitions'] += 1
      if first_answer.get(lab) is not None and first_answer[lab] != acc:
        res['fails'].append(_f(
            'acceptance_depends_on_history', f'{lab}: '
            f'{"accepted" if first_answer[lab] else "refused"} in the forward '
            f'sweep, {"accepted" if acc else "refused"} in the reverse sweep',
            lab + '|resweep'))
  res['sample'] = {'selector': op, 'lattice_point': label(*next(lattice()))}
  return res
