"""Fixed batch run in a real new process (C14 clause c): prints one digest per
(model, recipe, dataset) case; the parent compares across PYTHONHASHSEED."""
import hashlib
import sys

from vf import env


def main():
  L = env.lib()
  from vf import ir as irm, modes as md
  from vf.oracles import c14
  irs = c14.model_irs() + [
      irm.single([irm.op('FULLY_CONNECTED', 'bias'), irm.op('SPLIT', 'last', [1]),
                  irm.op('CONCATENATION', 'last', [3, 2]),
                  irm.op('ADD', 'tt', [0, 4])], [1], pool=0),
      irm.single([irm.op('EMBEDDING_LOOKUP', 'w4', []),
                  irm.op('FULLY_CONNECTED', 'bias', [1]),
                  irm.op('MUL', 'tt', [2, 2])], pool=1),
  ]
  recipes = c14.RECIPES + [[md.rule('.*', '*', 'SRQ16')],
                           [md.rule('.*', '*', 'WO4c'),
                            md.rule('.*', 'FULLY_CONNECTED', 'SRQ8a')]]
  for mi, ir in enumerate(irs):
    b = irm.build(ir)
    for ri, r in enumerate(recipes):
      try:
        qt = L.quantizer.Quantizer(b.model, r)
        cal = None
        if qt.need_calibration:
          cal = qt.calibrate([b.input_data(0, 'mix'), b.input_data(0, 'pos')])
        out = hashlib.sha256(bytes(qt.quantize(cal).quantized_model)).hexdigest()
      except Exception as e:  # pylint: disable=broad-except
        out = 'EXC:' + type(e).__name__
      print(f'BATCH m{mi} r{ri} {out}')
  return 0


if __name__ == '__main__':
  sys.exit(main())
