"""C19 - each subgraph of a multi-signature model is transformed as if alone."""
import copy
import itertools

import numpy as np

from vf import enum_graphs as eg
from vf import env, fbparse, findings, ir as irm, modes as md

PROP = 'C19'
TYPES = eg.TTOPO + ['CONV_2D', 'EMBEDDING_LOOKUP']
PREFIXES = ['', 'b_', 'c_']
KEYS = ['serving_default', 'sig1', 'sig2']


def subgraphs(n):
  alpha = eg.alphabet(TYPES, 'first')
  for ops in eg.histories(n, alpha):
    for ex in eg.export_choices(ops, 'one'):
      yield {'ops': ops, 'exports': ex}


def cases(tier):
  g1 = list(subgraphs(1))
  g2 = list(subgraphs(2))
  # pairs of one-operator graphs (incl. equal structure, different names)
  for a in g1:
    for b in g1:
      yield {'subs': [a, b]}
      # signature table listed in the opposite order to the subgraphs
      yield {'subs': [a, b], 'sigrev': True}
  # a two-operator graph next to a one-operator graph, both orders
  pick = g2
  for a in pick:
    for b in (g1 if tier == 'thorough' else g1[:5]):
      yield {'subs': [a, b]}
      yield {'subs': [b, a]}
  # equal structure under different names (same tensor indices in both)
  for a in g2:
    yield {'subs': [a, a]}
  for a in g2[::3]:
    for b in g1[:3]:
      yield {'subs': [a, b], 'sigrev': True}
  # sharing one constant buffer across subgraphs
  for t, v in (('FULLY_CONNECTED', 'bias'), ('CONV_2D', '1x1'),
               ('EMBEDDING_LOOKUP', 'w4')):
    ar = irm.arity(t, v)
    a = {'ops': [irm.op(t, v, [0] * ar)], 'exports': []}
    b = {'ops': [irm.op(t, v, [0] * ar, share=['buffer', 0, 0])], 'exports': []}
    yield {'subs': [a, b], 'shared': True}
  # float constants named identically in both subgraphs (activations differ):
  # the library must reject the model or treat each subgraph as if alone
  for a in g1:
    for b in g1:
      yield {'subs': [dict(a, cprefix='k_'), dict(b, cprefix='k_')], 'dup': True}
  if tier == 'thorough':
    for a in g2:
      for b in g2:
        yield {'subs': [a, b]}
    for a, b, c in itertools.product(g1, repeat=3):
      yield {'subs': [a, b, c]}


def plan(tier, seed):
  return {
      'cases': cases(tier), 'chunk': 8,
      'budget_s': 285 if tier == 'quick' else 3300,
      'rule': ('E1 with NewSubgraph events: ordered pairs (triples in thorough) '
               'of graphs with disjoint name prefixes, incl. equal structure '
               'under different names and a constant buffer shared across '
               'subgraphs, x uniform and per-operator mixed recipes; statistics '
               'are obtained per extracted single-subgraph model and merged. '
               'Oracle: subgraph i of quantize(multi) equals subgraph 0 of '
               'quantize(single_i) in operators, order, options, wiring, tensor '
               'names, dtypes, quantization parameters and constant bytes. '
               'non-trivial = multi-subgraph models whose quantized form '
               'differs from the float form'),
      'bounds': {'types': TYPES, 'value_pool': seed % 4},
      'exhaustive': True,
  }


def _f(kind, detail, sub, facts=None, group=''):
  return findings.fail(PROP, kind, detail, sub, facts or {}, group or kind)


def make_ir(subs, pool, only=None):
  out = []
  for i, sg in enumerate(subs):
    if only is not None and i != only:
      continue
    d = dict(sg, prefix=PREFIXES[i], key=KEYS[i], cbase=i)
    if only is not None:
      # a single-subgraph extract cannot share with a subgraph that is gone
      d['ops'] = [dict({k: v for k, v in o.items() if k != 'share'},
                       **({'wkey': 1000 * o['share'][1] + o['share'][2]}
                          if o.get('share') else {}))
                  for o in d['ops']]
    out.append(d)
  return {'subgraphs': out, 'pool': pool}


def recipes(built):
  metas = built.all_ops()
  out = [('R2:SRQ8a', [md.rule('.*', '*', 'SRQ8a')]),
         ('R2:DRQ8c', [md.rule('.*', '*', 'DRQ8c')]),
         ('R2:WO8c', [md.rule('.*', '*', 'WO8c')])]
  # rules scoped by the name prefix of ONE subgraph ('*' also covers that
  # subgraph's virtual INPUT operator)
  out.append(('R6:only_b', [md.rule('^b_', '*', 'SRQ8a')]))
  out.append(('R6:not_b', [md.rule('^(?!b_)', '*', 'SRQ8a')]))
  cyc = ['SRQ8a', 'NQ', 'DRQ8c', 'SRQ16', 'WO4c']
  for shift in (0, 1):
    r = []
    for k, m in enumerate(metas):
      mo = cyc[(k + shift) % len(cyc)]
      if m.type in irm.SUPPORTED and md.supported(m.type, mo):
        r.append(md.rule(md.op_regex(built, m), m.type, mo))
    if r:
      out.append((f'R3:mixed{shift}', r))
  return out


def compare(pm_a, ia, pm_b, ib, n_orig=None):
  """Differences between subgraph ia of pm_a and subgraph ib of pm_b.
  Tensor names are compared for the first n_orig tensors only (those of the
  float subgraph): how *inserted* tensors are named is not C19's subject."""
  A, B = pm_a.subs[ia], pm_b.subs[ib]
  d = []
  if len(A.ops) != len(B.ops):
    return [f'operator count {len(A.ops)} vs {len(B.ops)}']
  if len(A.tensors) != len(B.tensors):
    return [f'tensor count {len(A.tensors)} vs {len(B.tensors)}']
  for k, (x, y) in enumerate(zip(A.ops, B.ops)):
    if x.code != y.code:
      d.append(f'op {k} code {fbparse.BN.get(x.code)} vs {fbparse.BN.get(y.code)}')
    if x.opt_bytes != y.opt_bytes:
      d.append(f'op {k} options')
    if x.inputs != y.inputs or x.outputs != y.outputs:
      d.append(f'op {k} wiring {x.inputs}->{x.outputs} vs '
               f'{y.inputs}->{y.outputs}')
  for k, (x, y) in enumerate(zip(A.tensors, B.tensors)):
    if x.name != y.name and (n_orig is None or k < n_orig):
      d.append(f'tensor {k} name {x.name} vs {y.name}')
    if x.type != y.type or x.shape != y.shape:
      d.append(f'tensor {k} {x.name} {fbparse.TN[x.type]}{x.shape} vs '
               f'{fbparse.TN[y.type]}{y.shape}')
    if x.quantized() != y.quantized() or (x.quantized() and (
        not np.array_equal(x.scale, y.scale) or not np.array_equal(x.zp, y.zp)
        or (len(x.scale) > 1 and x.qdim != y.qdim))):
      d.append(f'tensor {k} {x.name} quantization parameters')
    if pm_a.tensor_bytes(x) != pm_b.tensor_bytes(y):
      d.append(f'tensor {k} {x.name} constant bytes')
  if A.inputs != B.inputs or A.outputs != B.outputs:
    d.append(f'subgraph I/O {A.inputs}->{A.outputs} vs {B.inputs}->{B.outputs}')
  # the signature bound to the subgraph: same key, same name -> tensor wiring
  sa = [(g['key'], g['inputs'], g['outputs']) for g in pm_a.sigs if g['sub'] == ia]
  sb = [(g['key'], g['inputs'], g['outputs']) for g in pm_b.sigs if g['sub'] == ib]
  if sa != sb:
    d.append(f'signature {sa} vs {sb}')
  return d


def run_case(case, note, skip):
  L = env.lib()
  res = {'evals': 0, 'nontrivial': 0, 'hashes': [], 'fails': [], 'states': 0,
         'transitions': 0, 'traces': 0, 'counts': {}}
  cnt = res['counts']
  pool = env.seed() % 4
  multi_ir = make_ir(case['subs'], pool)
  if case.get('sigrev'):
    multi_ir['sigdefs'] = 'rev'
  multi = irm.build(multi_ir)
  if multi is None:
    cnt['ill_shaped'] = 1
    return res
  n = len(case['subs'])
  singles = [irm.build(make_ir(case['subs'], pool, only=i)) for i in range(n)]
  if any(s is None for s in singles):
    cnt['ill_shaped'] = 1
    return res
  res['states'] = 1
  res['transitions'] = sum(len(s['ops']) for s in case['subs']) + n
  only = case.get('only')
  n_float = [len(sg.tensors) for sg in fbparse.parse(multi.model).subs]
  for rkey, recipe in recipes(multi):
    if only is not None and only != rkey:
      continue
    res['evals'] += 1
    res['transitions'] += n + 1
    try:
      merged = {}
      need = False
      for i, sgl in enumerate(singles):
        qt = L.quantizer.Quantizer(sgl.model, copy.deepcopy(recipe))
        if qt.need_calibration:
          need = True
          merged.update(qt.calibrate([sgl.input_data(0, 'mix')], sgl.keys[0]))
      cal = merged if need else None
      qsingles = []
      for sgl in singles:
        qt = L.quantizer.Quantizer(sgl.model, copy.deepcopy(recipe))
        qsingles.append(bytes(qt.quantize(copy.deepcopy(cal)).quantized_model))
    except Exception as e:  # the single-subgraph reference itself is rejected
      k = 'single_raised:' + type(e).__name__
      cnt[k] = cnt.get(k, 0) + 1
      continue
    try:
      qt = L.quantizer.Quantizer(multi.model, copy.deepcopy(recipe))
      qmulti = bytes(qt.quantize(copy.deepcopy(cal)).quantized_model)
    except Exception as e:  # no claim (C15 governs sharing)
      k = 'multi_raised:' + type(e).__name__
      cnt[k] = cnt.get(k, 0) + 1
      if not case.get('shared') and not case.get('dup'):
        res['fails'].append(_f(
            'multi_rejected_singles_accepted', f'{rkey}: {type(e).__name__}: '
            f'{e}'[:300], rkey, {'shared': False}, type(e).__name__))
      continue
    res['traces'] += 1
    pm = fbparse.parse(qmulti)
    if qmulti != multi.model:
      res['nontrivial'] += 1
      res['hashes'].append(str(hash(qmulti) & 0xffffffffffff))
    if len(pm.subs) != n:
      res['fails'].append(_f('subgraph_count', rkey, rkey))
      continue
    for i in range(n):
      ps = fbparse.parse(qsingles[i])
      diffs = compare(pm, i, ps, 0, n_float[i])
      if diffs:
        res['fails'].append(_f(
            'subgraph_differs', f'{rkey}: subgraph {i} of the multi-subgraph '
            f'result differs from the stand-alone result: {"; ".join(diffs[:4])}',
            rkey, {'subgraph': i, 'shared': bool(case.get('shared'))},
            diffs[0].split(' ')[0] + ':' + rkey.split(':')[0]))
  res['sample'] = {'ir': multi_ir}
  return res
