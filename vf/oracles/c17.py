"""C17 - quantization arithmetic obeys its algebraic laws (E3 lattice sweep).

The four anchored functions are called exactly as the library calls them:
float32 min/max arrays -> tensor_zp_scale_from_min_max -> UniformQuantParams.
"""
import itertools

import numpy as np

from vf import env, findings, ref_arith

PROP = 'C17'
GRID = [0.0, 1e-8, 1e-4, 0.1, 1.0, 127.0, 1e4, 1e30, 3e38]
GRID = sorted(set(GRID + [-g for g in GRID]))
FRACS = [-0.5, -0.49, 0.0, 0.49, 0.5]
F32MAX = float(np.finfo(np.float32).max)


GRID_T = sorted(set(GRID + [v * sg for v in (1e-6, 0.5, 3.0, 1000.0, 65504.0,
                                              1e10, 1e20) for sg in (1, -1)]))


def lattice(tier='quick'):
  pts = []
  grid = GRID_T
  for bits in (4, 8, 16):
    for sym in (True, False):
      for mn, mx in itertools.combinations_with_replacement(grid, 2):
        pts.append({'bits': bits, 'sym': sym, 'min': mn, 'max': mx})
  return pts


def shapes():
  out = [()]
  for r in range(1, 5):
    out.extend(itertools.product((1, 2, 3), repeat=r))
  return out


def cases(tier):
  pts = lattice(tier)
  for i in range(0, len(pts), 6):
    yield {'what': 'range', 'pts': pts[i:i + 6]}
  shp = [s for s in shapes()]
  if tier == 'quick':
    shp = [s for s in shp if len(s) <= 3] + [s for s in shp if len(s) == 4][::3]
  for i in range(0, len(shp), 8):
    yield {'what': 'channel', 'shapes': [list(s) for s in shp[i:i + 8]]}
  yield {'what': 'bias'}


def plan(tier, seed):
  return {
      'cases': cases(tier), 'chunk': 2, 'budget_s': 600,
      'rule': ('E3: full product {17-point range grid, all ordered pairs '
               'min<=max} x bits {4,8,16} x symmetric; for each lattice point '
               'ALL integer codes of the emitted range and, per code q, the '
               'inputs (q+f)*scale, f in {-0.5,-0.49,0,0.49,0.5}; all tensor '
               'shapes of rank 0-4 over dims {1,2,3} with every quantized '
               'dimension; bias quantization over the same scale grid. '
               'non-trivial = lattice point whose parameters are finite and '
               'differ from the minimum-bound default'),
      'bounds': {'grid': GRID_T, 'bits': [4, 8, 16], 'fractions': FRACS},
      'alphabet': {'functions': ['tensor_zp_scale_from_min_max',
                                 'uniform_quantize', 'uniform_dequantize',
                                 'symmetric_quantize_bias_tensor']},
      'exhaustive': True,
      'assumptions': ['float32 min/max as produced by np.min/np.max of float32 '
                      'tensors; tolerance 0.52 step for the float32 evaluation '
                      'of x/scale+zp'],
  }


def _fail(kind, detail, pt, sub):
  return findings.fail(PROP, kind, detail, sub, facts=dict(pt), group=kind + ':' +
                       f"bits{pt.get('bits')}sym{pt.get('sym')}")


def check_range(pt, L, res):
  uq = L.uq
  bits, sym = pt['bits'], pt['sym']
  sub = f"range:{bits}:{sym}:{pt['min']!r}:{pt['max']!r}"
  fails = []
  mn = np.array([pt['min']], dtype=np.float32)
  mx = np.array([pt['max']], dtype=np.float32)
  with np.errstate(all='ignore'):
    zp, scale = uq.tensor_zp_scale_from_min_max(mn, mx, bits, sym)
  res['evals'] += 1
  lo, hi = ref_arith.qrange(bits, narrow=sym)
  flo, fhi = ref_arith.qrange(bits)
  sc = float(np.asarray(scale, dtype=np.float64).ravel()[0])
  z = int(np.asarray(zp).ravel()[0])
  if not (np.isfinite(sc) and sc > 0):
    fails.append(_fail('scale_not_finite_positive', f'{sub}: scale={sc}', pt, sub))
    return fails
  if not (flo <= z <= fhi) or (sym and z != 0):
    fails.append(_fail('zero_point_range', f'{sub}: zp={z}', pt, sub))
  if np.asarray(zp).shape != np.asarray(scale).shape:
    fails.append(_fail('shape_mismatch', sub, pt, sub))
  # coverage of [min, max] up to half a step
  cov_lo = (lo - z) * sc
  cov_hi = (hi - z) * sc
  m32, M32 = float(mn[0]), float(mx[0])
  # half a step, plus the float32 rounding of the scale accumulated over the
  # 2**bits steps of the range
  half = sc * (0.5 * 1.0001 + 2.0 ** (bits - 22))
  if cov_lo > m32 + half or cov_hi < M32 - half:
    fails.append(_fail('range_not_covered',
                       f'{sub}: representable [{cov_lo}, {cov_hi}] vs '
                       f'[{m32}, {M32}] step {sc}', pt, sub))
  # compare with the float64 reference formulas
  rz, rs = ref_arith.zp_scale(mn.astype(np.float64), mx.astype(np.float64),
                              bits, sym)
  if not np.isclose(sc, float(rs[0]), rtol=2e-6, atol=0):
    fails.append(_fail('scale_vs_reference', f'{sub}: {sc} vs {float(rs[0])}',
                       pt, sub))
  if z != int(rz[0]) and not (abs(z - int(rz[0])) == 1 and
                              ref_arith.zp_tie(mn, mx, bits)[0] < 1e-3):
    fails.append(_fail('zp_vs_reference', f'{sub}: {z} vs {int(rz[0])}', pt, sub))
  qp = L.qtyping.UniformQuantParams(num_bits=bits, quantized_dimension=None,
                                    scale=scale, zero_point=zp, symmetric=sym)
  # all emitted codes
  codes = np.arange(lo, hi + 1, dtype=np.int64)
  cdt = np.int8 if bits <= 8 else np.int16
  with np.errstate(all='ignore'):
    deq = uq.uniform_dequantize(codes.astype(cdt), qp)
    ref_deq = ref_arith.dequantize(codes, sc, z)
    res['evals'] += len(codes)
    bad = ~np.isclose(np.asarray(deq, dtype=np.float64), ref_deq,
                      rtol=1e-5, atol=sc * 1e-3)
    if np.any(bad):
      i = int(np.argmax(bad))
      fails.append(_fail('dequantize_wrong',
                         f'{sub}: code {int(codes[i])} -> {float(deq[i])} '
                         f'expected {ref_deq[i]} (zp {z}, scale {sc})', pt, sub))
    # round trip on the library's own dequantized values
    if np.all(np.isfinite(ref_deq)):
      rq = uq.uniform_quantize(np.asarray(ref_deq, dtype=np.float32), qp)
      if not np.array_equal(np.asarray(rq, dtype=np.int64), codes):
        # float32 representation of (q-zp)*scale may fall on the other side of
        # a tie only if scale is not exactly representable; compare via ref
        exp = ref_arith.quantize(np.asarray(ref_deq, dtype=np.float32), sc, z,
                                 bits, sym)
        if not np.array_equal(np.asarray(rq, dtype=np.int64), exp) or \
            not np.array_equal(exp, codes):
          i = int(np.argmax(np.asarray(rq, dtype=np.int64) != codes))
          fails.append(_fail('quantize_of_dequantize',
                             f'{sub}: code {int(codes[i])} -> '
                             f'{int(np.asarray(rq)[i])}', pt, sub))
      if not np.any(bad):
        rq2 = uq.uniform_quantize(np.asarray(deq, dtype=np.float32), qp)
        if not np.array_equal(np.asarray(rq2, dtype=np.int64), codes):
          i = int(np.argmax(np.asarray(rq2, dtype=np.int64) != codes))
          fails.append(_fail('roundtrip_code', f'{sub}: quantize(dequantize('
                             f'{int(codes[i])})) = {int(np.asarray(rq2)[i])}',
                             pt, sub))
    # quantize: range, monotone, half-step error
    if np.isfinite(sc * (hi - lo + 2)) and sc * 65536 < F32MAX:
      xs = []
      for f in FRACS:
        xs.append((codes - z + f) * sc)
      x = np.sort(np.concatenate(xs + [np.array([
          (lo - z - 3) * sc, (hi - z + 3) * sc, 0.0])]))
      x32 = x.astype(np.float32)
      q = np.asarray(uq.uniform_quantize(x32, qp), dtype=np.int64)
      res['evals'] += len(x)
      if q.min() < lo or q.max() > hi:
        fails.append(_fail('quantize_out_of_range',
                           f'{sub}: [{q.min()}, {q.max()}] outside [{lo}, {hi}]',
                           pt, sub))
      if np.any(np.diff(q) < 0):
        fails.append(_fail('quantize_not_monotone', sub, pt, sub))
      x64 = x32.astype(np.float64)
      inr = (x64 >= cov_lo) & (x64 <= cov_hi)
      err = np.abs(ref_arith.dequantize(q, sc, z) - x64)
      if np.any(err[inr] > 0.52 * sc):
        i = int(np.argmax(np.where(inr, err, 0)))
        fails.append(_fail('roundtrip_error',
                           f'{sub}: x={x64[i]} -> q={int(q[i])} err '
                           f'{err[i] / sc:.3f} steps', pt, sub))
  if sc > 2 * ref_arith.MIN_BOUND / (fhi - flo):
    res['nontrivial'] += 1
    res['hashes'].append(sub)
  return fails


def check_channel(shape, L, res):
  """Per-channel parameters act only along their own channel."""
  uq = L.uq
  fails = []
  n = int(np.prod(shape)) if shape else 1
  x = (np.cos(np.arange(n) * 1.7) * 3).astype(np.float32).reshape(shape)
  dims = list(range(len(shape))) or [None]
  for d in dims:
    for bits, sym in ((4, True), (8, True), (8, False), (16, True)):
      sub = f'channel:{shape}:{d}:{bits}:{sym}'
      pt = {'shape': list(shape), 'qdim': d, 'bits': bits, 'sym': sym}
      if d is None:
        mn, mx = np.min(x, keepdims=True), np.max(x, keepdims=True)
      else:
        ax = tuple(i for i in range(len(shape)) if i != d)
        mn = np.min(x, axis=ax, keepdims=True)
        mx = np.max(x, axis=ax, keepdims=True)
      zp, sc = uq.tensor_zp_scale_from_min_max(mn, mx, bits, sym)
      qp = L.qtyping.UniformQuantParams(num_bits=bits, quantized_dimension=d,
                                        scale=sc, zero_point=zp, symmetric=sym)
      q = np.asarray(uq.uniform_quantize(x, qp))
      res['evals'] += 1
      # flattened parameters (as stored in the flatbuffer) must act the same
      if d is not None:
        qpf = L.qtyping.UniformQuantParams(
            num_bits=bits, quantized_dimension=d, scale=sc.flatten(),
            zero_point=zp.flatten(), symmetric=sym)
        qf = np.asarray(uq.uniform_quantize(x, qpf))
        if not np.array_equal(q, qf):
          fails.append(_fail('flattened_params_differ', sub, pt, sub))
        dq = np.asarray(uq.uniform_dequantize(q.astype(np.int32), qpf),
                        dtype=np.float64)
      else:
        dq = np.asarray(uq.uniform_dequantize(q.astype(np.int32), qp),
                        dtype=np.float64)
      nch = shape[d] if d is not None else 1
      for j in range(nch):
        sl = [slice(None)] * len(shape)
        if d is not None:
          sl[d] = j
        s_j = float(np.asarray(sc, dtype=np.float64).ravel()[j])
        z_j = int(np.asarray(zp).ravel()[j])
        exp = ref_arith.quantize(x[tuple(sl)].astype(np.float64), s_j, z_j,
                                 bits, sym)
        got = q[tuple(sl)].astype(np.int64)
        if np.max(np.abs(got - exp), initial=0) > 1 or np.any(
            np.abs(ref_arith.dequantize(got, s_j, z_j) -
                   x[tuple(sl)].astype(np.float64)) > 0.52 * s_j):
          fails.append(_fail('channel_leak', f'{sub} channel {j}', pt, sub))
        if np.max(np.abs(dq[tuple(sl)] - ref_arith.dequantize(got, s_j, z_j)),
                  initial=0) > 1e-5 * max(1.0, s_j * 2 ** bits):
          fails.append(_fail('channel_dequantize', f'{sub} channel {j}', pt, sub))
      res['nontrivial'] += 1
      res['hashes'].append(sub)
  return fails


def check_bias(L, res):
  uq = L.uq
  fails = []
  scales = [1e-8, 1e-4, 0.01, 1.0, 50.0]
  bias = np.array([-3.5, -1e-3, 0.0, 0.7, 123.456], dtype=np.float32)
  for abits in (8, 16):
    for si in scales:
      for sw in scales:
        for cw in (False, True):
          sub = f'bias:{abits}:{si}:{sw}:{cw}'
          pt = {'bits': abits, 'in_scale': si, 'w_scale': sw, 'cw': cw}
          ws = (np.array([sw * (k + 1) for k in range(5)], dtype=np.float32)
                .reshape(5, 1) if cw else np.array([[sw]], dtype=np.float32))
          ip = L.qtyping.UniformQuantParams(
              num_bits=abits, quantized_dimension=None,
              scale=np.array([si], dtype=np.float32),
              zero_point=np.array([0], dtype=np.int32), symmetric=abits == 16)
          wp = L.qtyping.UniformQuantParams(
              num_bits=8, quantized_dimension=0 if cw else None, scale=ws,
              zero_point=np.zeros_like(ws, dtype=np.int32), symmetric=True)
          with np.errstate(all='ignore'):
            bp = uq.symmetric_quantize_bias_tensor(bias, ip, wp)
          res['evals'] += 1
          es = (np.float32(si) * ws.astype(np.float32)).astype(np.float64).ravel()
          if bp.num_bits != (64 if abits == 16 else 32):
            fails.append(_fail('bias_bits', sub, pt, sub))
          if not np.allclose(np.asarray(bp.scale, dtype=np.float64).ravel(), es,
                             rtol=2e-6) or np.any(np.asarray(bp.zero_point) != 0):
            fails.append(_fail('bias_scale', sub, pt, sub))
            continue
          lo, hi = ref_arith.qrange(bp.num_bits, narrow=True)
          exp = np.clip(np.rint(bias.astype(np.float64) / es), lo, hi)
          got = np.asarray(bp.quantized_data, dtype=np.float64).ravel()
          tol = 0.5 + np.abs(exp) * 2.0 ** -21
          sat = (np.abs(exp) >= hi)
          if np.any((np.abs(got - exp) > tol + 0.51) & ~sat):
            fails.append(_fail('bias_value', f'{sub}: {got} vs {exp}', pt, sub))
          # dequantizing the 32/64-bit codes gives back bias/scale * scale
          with np.errstate(all='ignore'):
            dq = np.asarray(uq.uniform_dequantize(
                np.asarray(bp.quantized_data), bp), dtype=np.float64).ravel()
          refdq = got * es
          if not np.allclose(dq, refdq, rtol=1e-5, atol=1e-30):
            fails.append(_fail('bias_dequantize', f'{sub}: {dq} vs {refdq}',
                               pt, sub))
          res['nontrivial'] += 1
          res['hashes'].append(sub)
  # wide codes: (q - zp) * scale must not wrap for 32/64-bit data
  for dt, vals in ((np.int32, [2**31 - 1, -2**31, 12345]),
                   (np.int64, [2**31 + 5, -2**40, 2**62, -7])):
    for zp in (0, 3):
      sub = f'wide:{np.dtype(dt).name}:{zp}'
      pt = {'bits': 64 if dt == np.int64 else 32, 'zp': zp}
      qp = L.qtyping.UniformQuantParams(
          num_bits=pt['bits'], quantized_dimension=None,
          scale=np.array([0.5], dtype=np.float32),
          zero_point=np.array([zp], dtype=np.int32), symmetric=zp == 0)
      q = np.array(vals, dtype=dt)
      with np.errstate(all='ignore'):
        dq = np.asarray(uq.uniform_dequantize(q, qp), dtype=np.float64)
      want = (np.array(vals, dtype=np.float64) - zp) * 0.5
      res['evals'] += 1
      if not np.allclose(dq, want, rtol=1e-6):
        fails.append(_fail('dequantize_wide_codes', f'{sub}: {dq} vs {want}',
                           pt, sub))
  return fails


class _L:
  pass


def _lib():
  L = _L()
  lib = env.lib()
  from ai_edge_quantizer.algorithms.uniform_quantize import uniform_quantize_tensor
  L.uq = uniform_quantize_tensor
  L.qtyping = lib.qtyping
  return L


def run_case(case, note, skip):
  L = _lib()
  res = {'evals': 0, 'nontrivial': 0, 'hashes': [], 'fails': [], 'states': 0,
         'transitions': 0, 'traces': 0, 'counts': {}}
  only = case.get('only')
  if case['what'] == 'range':
    for pt in case['pts']:
      sub = f"range:{pt['bits']}:{pt['sym']}:{pt['min']!r}:{pt['max']!r}"
      if only is not None and only != sub:
        continue
      res['states'] += 1
      res['traces'] += 1
      res['fails'].extend(check_range(pt, L, res))
    res['sample'] = {'lattice_point': case['pts'][0]}
  elif case['what'] == 'channel':
    for shape in case['shapes']:
      res['states'] += 1
      res['traces'] += 1
      fs = check_channel(tuple(shape), L, res)
      if only is not None:
        fs = [f for f in fs if f['sub'] == only]
      res['fails'].extend(fs)
  else:
    res['states'] += 1
    res['traces'] += 1
    fs = check_bias(L, res)
    if only is not None:
      fs = [f for f in fs if f['sub'] == only]
    res['fails'].extend(fs)
  res['transitions'] = res['evals']
  return res
