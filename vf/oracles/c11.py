"""C11 - recipe resolution follows last-applicable-rule-wins (E2)."""
import json

from vf import findings, recipe_space as rs

PROP = 'C11'


def plan(tier, seed):
  evs = rs.events(tier)
  depth = 3 if tier == 'quick' else 4
  cases = [{'first': i, 'depth': 3, 'tier': tier} for i in range(len(evs))]
  # a reduced alphabet (13 events) to depth 5: longer histories (re-adding '*'
  # after other regexes were inserted, ...)
  cases = [{'first': i, 'depth': 5, 'tier': 'mini'}
           for i in range(len(rs.events('mini')))] + cases
  if tier == 'thorough':
    # depth 4 over the quick alphabet, depth 3 over the extended one
    cases = [{'first': i, 'depth': 4, 'tier': 'quick'}
             for i in range(len(rs.events('quick')))] + cases
  return {
      'cases': cases,
      'chunk': 1, 'budget_s': 280 if tier == 'quick' else 3300,
      'rule': ('E2: all histories of update/load calls of length <= depth over '
               'the event alphabet, each replayed on a fresh Quantizer in '
               'lock-step with the reference model R-recipe; at every state: '
               'exported recipe == reference list, 31-entry observation table '
               '(5 operators x 6 scopes + need_calibration) == reference, queries are repeatable '
               'and side-effect free, refused calls leave the state unchanged, '
               'states reached by different histories resolve identically. '
               'non-trivial = history whose last event changed the state; '
               'distinct = distinct canonical states'),
      'bounds': {'depth': depth, 'events': len(evs)},
      'alphabet': {'events': [e['label'] for e in evs],
                   'query_ops': rs.QUERY_OPS, 'query_scopes': rs.QUERY_SCOPES},
      'exhaustive': True,
      'confirm': True,
      'assumptions': ['the accept/refuse answer of check_op_quantization_config '
                      'is an input of the reference (C13 examines it)'],
  }


def _f(kind, detail, sub, facts=None):
  return findings.fail(PROP, kind, detail, sub, facts or {}, group=kind)


def visit(labels, impl, ref, before, exc, refused, sub):
  out = []
  if refused:
    if exc is None:
      out.append(_f('refusal_expected', f'[{sub}]: last call was accepted', sub))
    elif not isinstance(exc, ValueError):
      out.append(_f('refusal_exception_type',
                    f'[{sub}]: {type(exc).__name__}: {exc}'[:300], sub))
    if impl.recipe() != before:
      out.append(_f('refused_call_changed_state', f'[{sub}]', sub))
  elif exc is not None:
    out.append(_f('unexpected_exception',
                  f'[{sub}]: {type(exc).__name__}: {exc}'[:300], sub))
    return out
  rec, want = impl.recipe(), ref.recipe()
  if rec != json.loads(json.dumps(want)):
    out.append(_f('recipe_list', f'[{sub}]: exported {json.dumps(rec)[:400]} '
                  f'expected {json.dumps(want)[:400]}', sub))
  t1, tr = rs.table(impl), rs.table(ref)
  if t1 != json.loads(json.dumps(tr)):
    bad = [(a, b) for a, b in zip(t1, json.loads(json.dumps(tr))) if a != b][0]
    out.append(_f('resolution', f'[{sub}]: query {bad[0][:2]} resolved to '
                  f'{json.dumps(bad[0][2:])[:300]} expected '
                  f'{json.dumps(bad[1][2:])[:300]}', sub))
  t2 = rs.table(impl)
  if t2 != t1 or impl.recipe() != rec:
    out.append(_f('query_not_pure', f'[{sub}]', sub))
  return out


def run_case(case, note, skip):
  evs = rs.events(case['tier'])
  res = {'evals': 0, 'nontrivial': 0, 'hashes': [], 'fails': [], 'states': 0,
         'transitions': 0, 'traces': 0, 'counts': {}}
  only = case.get('only')
  fails, tables = rs.explore(case['first'], case['depth'], evs, visit, res, only)
  for f in fails:
    if isinstance(f, tuple):
      f = _f(f[0], f[1], f[2])
    if only is None or f['sub'] == only:
      res['fails'].append(f)
  res['traces'] = res['evals']
  res['merge'] = tables
  res['hashes'] = list(tables.keys())
  res['nontrivial'] = len(tables)
  res['sample'] = {'history': [evs[case['first']]['label']],
                   'depth': case['depth']}
  return res


def finish(agg):
  out = []
  for key, hs in agg.merged.items():
    if len(hs) > 1:
      out.append(({'first': 0, 'depth': 0, 'tier': 'quick'},
                  _f('revisit_disagrees_across_workers', f'state {key}', None)))
  return out


def coverage_extra(agg):
  return {'states': max(1, len(agg.merged))}
