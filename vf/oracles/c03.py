"""C03 - each op runs in exactly the mode its rule selected; others untouched."""
from vf import enum_graphs as eg
from vf import fbparse, modes as md, ref_mode, skeleton, universe
from vf.oracles import common

PROP = 'C03'
T = fbparse.T
BO = fbparse.BO
TN = fbparse.TN

PLAN_Q12 = {  # N <= 2, quick: all ordered pairs over a representative mode set
    'shipped': True, 'uniform': [],
    'perop': ['NQ', 'SRQ8a', 'SRQ8s', 'SRQ16', 'DRQ8c', 'WO8c', 'WO4c', 'FP16'],
    'layered': {'base': ['SRQ8a', 'DRQ8c'], 'override': ['NQ', 'SRQ16']},
    'shadow': {'base': ['DRQ4c'], 'override': ['DRQ8c', 'SRQ8a']},
    'io': ['none', 'both8'], 'io_on': ('shipped',),
}
PLAN_T12 = {  # thorough: the whole 12-mode alphabet, all ordered pairs
    'shipped': True, 'uniform': [],
    'perop': md.MODE12 + ['DRQ4t', 'WO8t', 'SRQ8at', 'SRQ16w4'],
    'layered': {'base': ['SRQ8a', 'SRQ16', 'DRQ8c', 'WO8c'],
                'override': ['NQ', 'SRQ8a', 'SRQ16', 'DRQ8c', 'FP16']},
    'shadow': {'base': ['DRQ4c', 'SRQ16w4'], 'override': ['DRQ8c', 'SRQ8a', 'WO8c']},
    'io': ['none', 'both8', 'out8', 'in8', 'both16'],
    'io_on': ('shipped', 'layered'),
}
PLAN_Q3 = {'shipped': False, 'uniform': [],
           'perop': ['NQ', 'SRQ8a', 'DRQ8c'],
           'io': ['none']}
PLAN_T3 = {'shipped': True, 'uniform': [],
           'perop': ['NQ', 'SRQ8a', 'SRQ16', 'DRQ8c', 'WO8c'],
           'layered': {'base': ['SRQ8a'], 'override': ['NQ', 'SRQ16']},
           'io': ['none', 'both8'], 'io_on': ('shipped',)}
PLANS = {'q12': PLAN_Q12, 't12': PLAN_T12, 'q3': PLAN_Q3, 't3': PLAN_T3}


def spec(tier):
  a, b = ('q12', 'q3') if tier == 'quick' else ('t12', 't3')
  return [(1, eg.T21 + eg.U, 'allx', 'one', a),
          (2, eg.T21 + eg.U, 'all' if tier == 'thorough' else 'first', 'one', a),
          (3, eg.TTOPO, 'first', 'one', b)]


PLAN_CHAIN = {'shipped': True, 'uniform': ['WO8c', 'FP16', 'DRQ4c', 'SRQ16'],
              'io': ['none']}
PLANS['chain'] = PLAN_CHAIN
PLANS['n4'] = {'uniform': [], 'perop': ['NQ', 'SRQ8a'],
               'io': ['none']}


def cases(tier):
  for n in ((4, 5) if tier == 'quick' else (4, 5, 6)):
    for g in eg.chains(n, ['FULLY_CONNECTED', 'TANH', 'RESHAPE']):
      yield {'ir': g, 'rp': 'chain'}
  # four-operator DAGs (diamonds, three consumers of one tensor) with every
  # NQ/SRQ8a assignment
  yield from universe.graph_cases(
      [(4, ['FULLY_CONNECTED', 'ADD', 'TANH'], 'first', 'none')], {'rp': 'n4'})
  for n, types, variants, exports, pname in spec(tier):
    yield from universe.graph_cases([(n, types, variants, exports)],
                                    {'rp': pname})


def plan(tier, seed):
  return {
      'cases': cases(tier),
      'budget_s': 270 if tier == 'quick' else 3300,
      'chunk': 16,
      'rule': ('E1: every complete graph history within the bounds x every '
               'per-operator mode assignment (all ordered mode pairs for '
               'adjacent/sharing operators), layered recipes with no_quantize '
               'overrides and INPUT/OUTPUT rules; each operator is resolved '
               'with the reference recipe model, mapped to the output model '
               'through the skeleton, and every operand/result dtype is '
               'compared with the R-mode table; no-quantize operators keep '
               'byte-identical constants; index operands stay the original '
               'tensors; every inserted QUANTIZE/DEQUANTIZE is type-correct. '
               'non-trivial = returned bytes differ from the float model'),
      'bounds': {'spec': [[n, len(t), v, e, p] for n, t, v, e, p in spec(tier)],
                 'value_pool': seed % 4},
      'alphabet': {'T21+U': eg.T21 + eg.U, 'Ttopo': eg.TTOPO,
                   'recipe_plans': PLANS},
      'assumptions': ['the accept/refuse behaviour of the support check is an '
                      'input of the reference resolution (C13 examines it)'],
  }


def oracle(ctx):
  fails = []
  fm, qm = ctx.fm, ctx.pm
  modes, io = ctx.modes
  built = ctx.built
  si = 0
  sm = skeleton.extract(fm, qm, si)
  if len(sm.opmap) != len(fm.subs[si].ops):
    return [ctx.fail('skeleton_broken', 'operators cannot be mapped back: '
                     + '; '.join(d for _, d in sm.problems)[:300])]
  fs, qs = fm.subs[si], qm.subs[si]
  prod = {}
  for o in qs.ops:
    for t in o.outputs:
      prod[t] = o
  for k, (meta, mode) in enumerate(zip(built.ops[si], modes)):
    if mode is None:
      fails.append(ctx.fail('harness_mode', f'op {k} unresolved'))
      continue
    fo, qo = fs.ops[k], qs.ops[sm.opmap[k]]
    kd = md.kind(mode)
    for pos, (fi, qi) in enumerate(zip(fo.inputs, qo.inputs)):
      if fi == -1:
        continue
      role = meta.roles[pos]
      ft, qt = fs.tensors[fi], qs.tensors[qi]
      is_const = fm.buffers[ft.buffer] is not None
      exp = ref_mode.expected_operand_dtype(role, meta.type, mode, is_const,
                                            ft.type)
      who = f'op {k} {meta.type}[{mode}] operand {pos}({role})'
      if qt.type != exp:
        fails.append(ctx.fail(
            'operand_dtype', f'{who}: {TN[qt.type]} expected {TN[exp]}',
            facts={'type': meta.type, 'mode': mode, 'role': role},
            group=f'{meta.type}:{kd}:{role}:{TN[qt.type]}!={TN[exp]}'))
      if kd in ('WO', 'FP16') and role == 'W' and is_const:
        p = prod.get(qi)
        if p is None or p.code != BO.DEQUANTIZE:
          fails.append(ctx.fail('weight_not_via_dequantize', who,
                                group=f'{meta.type}:{kd}'))
        else:
          src = qs.tensors[p.inputs[0]]
          want = ref_mode.wo_source_dtype(mode)
          if src.type != want or qm.buffers[src.buffer] is None:
            fails.append(ctx.fail(
                'weight_source_dtype', f'{who}: DEQUANTIZE reads '
                f'{TN[src.type]} expected constant {TN[want]}',
                group=f'{meta.type}:{kd}'))
      if kd == 'DRQ' and role == 'W' and is_const and \
          qm.buffers[qt.buffer] is None:
        fails.append(ctx.fail('weight_not_constant', who))
      if kd == 'NQ' and is_const:
        a, b = fm.buffers[ft.buffer], qm.buffers[qt.buffer]
        if qi != fi or a != b:
          fails.append(ctx.fail('noquant_constant_changed', who,
                                group=meta.type))
      if (role == 'I' or ft.type != T.FLOAT32) and (
          qi != fi or fm.buffers[ft.buffer] != qm.buffers[qt.buffer]
          or qt.quantized()):
        fails.append(ctx.fail('index_operand_touched', who, group=meta.type))
    for pos, (fo_, qo_) in enumerate(zip(fo.outputs, qo.outputs)):
      ft, qt = fs.tensors[fo_], qs.tensors[qo_]
      exp = ref_mode.expected_result_dtype(mode, ft.type)
      if qt.type != exp:
        fails.append(ctx.fail(
            'result_dtype', f'op {k} {meta.type}[{mode}] result {pos}: '
            f'{TN[qt.type]} expected {TN[exp]}',
            group=f'{meta.type}:{kd}:{TN[qt.type]}!={TN[exp]}'))
  # inserted ops are type-correct converters
  for oi in sm.inserted:
    o = qs.ops[oi]
    a, b = qs.tensors[o.inputs[0]], qs.tensors[o.outputs[0]]
    if o.code == BO.DEQUANTIZE:
      ok = b.type == T.FLOAT32 and not b.quantized() and (
          (a.type in (T.INT4, T.INT8, T.INT16) and a.quantized())
          or a.type == T.FLOAT16)
    else:
      ok = b.type in (T.INT8, T.INT16) and b.quantized() and (
          a.type == T.FLOAT32 or (a.type in (T.INT8, T.INT16) and a.quantized()))
    if not ok:
      fails.append(ctx.fail(
          'inserted_op_types', f'op {oi} {fbparse.BN[o.code]}: '
          f'{TN[a.type]} -> {TN[b.type]}',
          group=f'{fbparse.BN[o.code]}:{TN[a.type]}->{TN[b.type]}'))
  return fails


def run_case(case, note, skip):
  return common.run_graph_case(PROP, case, note, skip,
                               PLANS[case.get('rp', 'q12')], oracle)
