"""C04 - quantization parameters equal the TFLite-spec reference."""
import numpy as np

from vf import enum_graphs as eg
from vf import fbparse, ir as irm, modes as md, ref_arith, skeleton, universe
from vf.oracles import common

PROP = 'C04'
T = fbparse.T
BO = fbparse.BO
SAME_AS_INPUT = ('RESHAPE', 'TRANSPOSE', 'AVERAGE_POOL_2D', 'STRIDED_SLICE',
                 'SPLIT')
SAME_AS_OUTPUT = ('CONCATENATION',)
FIXED = ('SOFTMAX', 'LOGISTIC', 'TANH')
# quantized dimension the runtime kernel expects (TFLite quantization spec);
# BATCH_MATMUL: per-tensor only.
QDIM = {'FULLY_CONNECTED': 0, 'CONV_2D': 0, 'DEPTHWISE_CONV_2D': 3,
        'CONV_2D_TRANSPOSE': 0, 'EMBEDDING_LOOKUP': 0}
MODES = ['NQ', 'SRQ8a', 'SRQ8s', 'SRQ16', 'SRQ8w4', 'DRQ8c', 'DRQ8t', 'DRQ4c',
         'WO8c', 'WO8a', 'WO4c']
CHAIN3 = eg.TTOPO + ['STRIDED_SLICE', 'AVERAGE_POOL_2D', 'TRANSPOSE',
                     'SOFTMAX', 'LOGISTIC']

PLAN_Q = {'shipped': True, 'uniform': [],
          'perop': ['NQ', 'SRQ8a', 'SRQ8s', 'SRQ16', 'DRQ8t', 'WO8a'],
          'io': ['none']}
PLAN_T = {'shipped': True, 'uniform': [], 'perop': MODES, 'io': ['none']}
PLAN_Q3 = {'shipped': False, 'uniform': ['SRQ8s', 'SRQ16'],
           'perop': ['NQ', 'SRQ8a'], 'io': ['none']}
PLAN_T3 = {'shipped': True, 'uniform': ['SRQ8s'],
           'perop': ['NQ', 'SRQ8a', 'SRQ8s', 'SRQ16'], 'io': ['none']}
PLANS = {'q': PLAN_Q, 't': PLAN_T, 'q3': PLAN_Q3, 't3': PLAN_T3}


def cases(tier, seed):
  a, b = ('q', 'q3') if tier == 'quick' else ('t', 't3')
  dk = ['mix', 'pos'] if tier == 'quick' else \
      ['mix', 'mix2', 'pos', 'neg', 'zero', 'tiny', 'big']
  wks = ['rand'] if tier == 'quick' else ['rand', 'outlier', 'const', 'zero',
                                         'tiny', 'pos']
  for c in universe.graph_cases([(1, eg.T21, 'allx', 'one')]):
    for wk in ['rand', 'outlier', 'const', 'zero', 'tiny', 'pos', 'neg']:
      cc = {'ir': dict(c['ir']), 'rp': a,
            'dk': ['mix', 'mix2', 'pos', 'neg', 'zero', 'tiny', 'big']}
      cc['ir']['subgraphs'] = [dict(c['ir']['subgraphs'][0])]
      cc['ir']['subgraphs'][0]['ops'] = [
          dict(o, wk=wk) for o in c['ir']['subgraphs'][0]['ops']]
      yield cc
  for c in universe.graph_cases(
      [(2, eg.T21, 'allx' if tier == 'thorough' else 'first', 'one')]):
    c.update({'rp': a, 'dk': dk if tier == 'thorough' else ['mix']})
    yield c
  if tier == 'thorough':
    for wk in wks[1:]:
      for c in universe.graph_cases([(2, eg.T21, 'first', 'none')]):
        c['ir']['subgraphs'][0]['ops'] = [
            dict(o, wk=wk) for o in c['ir']['subgraphs'][0]['ops']]
        c.update({'rp': 'q', 'dk': ['mix']})
        yield c
  for c in universe.graph_cases(
      [(3, CHAIN3 if tier == 'thorough' else eg.TTOPO + ['STRIDED_SLICE',
                                                        'SOFTMAX'],
        'first', 'none')]):
    c.update({'rp': b, 'dk': ['mix']})
    yield c


def plan(tier, seed):
  return {
      'cases': cases(tier, seed), 'chunk': 16,
      'budget_s': 280 if tier == 'quick' else 3300,
      'rule': ('E1: graph histories (all 21 ops and variants at depth<=2, '
               'same-scale/fixed-range chains at depth 3) x per-operator mode '
               'assignments x calibration inputs over the whole data alphabet '
               '(degenerate ranges) x weight pools; every quantized tensor of '
               'every output model is re-derived independently: R-arith applied '
               'to R-stats (own interpreter run), fixed ranges, same-as-input/'
               'output rules, bias = s_in*s_w, per-channel weight ranges and '
               'dimensions; plus a coverage clause: every quantized tensor must '
               'be explained by some rule. non-trivial = returned model with at '
               'least one quantized tensor'),
      'bounds': {'value_pool': seed % 4, 'modes': MODES},
      'alphabet': {'T21': eg.T21, 'chain3': CHAIN3, 'recipe_plans': PLANS},
      'assumptions': ['scales compared at 2e-6 relative (float32 storage); '
                      'zero points exact, +-1 only when the pre-rounding value '
                      'is within 1e-3 of a tie'],
  }


def recipe_plan(built, case):
  return PLANS[case.get('rp', 'q')]


class _Chk:
  def __init__(self, ctx):
    self.ctx = ctx
    self.fails = []

  def fail(self, kind, detail, facts=None, group=''):
    self.fails.append(self.ctx.fail(kind, detail, facts, group))

  def close(self, exp, qt, what, facts, tie=None):
    """exp = (zp array, scale array)."""
    if not qt.quantized():
      self.fail('missing_params', what, facts, what.split(' ')[0])
      return
    zp = np.ravel(exp[0]).astype(np.int64)
    sc = np.ravel(exp[1]).astype(np.float64)
    if len(qt.scale) != len(sc) or len(qt.zp) != len(sc):
      self.fail('param_count', f'{what}: {len(qt.scale)} scales / '
                f'{len(qt.zp)} zero points, expected {len(sc)}', facts,
                what.split(' ')[0])
      return
    if not np.allclose(qt.scale, sc, rtol=2e-6, atol=0):
      i = int(np.argmax(np.abs(qt.scale - sc) / sc))
      self.fail('scale_value', f'{what}: scale[{i}]={qt.scale[i]!r} expected '
                f'{sc[i]!r}', facts, what.split(' ')[0])
    d = np.abs(qt.zp - zp)
    bad = d > 0
    if tie is not None:
      bad = bad & ~((d == 1) & (np.ravel(tie) < 1e-3))
    if np.any(bad):
      i = int(np.argmax(bad))
      self.fail('zero_point_value', f'{what}: zp[{i}]={int(qt.zp[i])} expected '
                f'{int(zp[i])}', facts, what.split(' ')[0])


def oracle(ctx):
  c = _Chk(ctx)
  fm, qm, built = ctx.fm, ctx.pm, ctx.built
  modes, io = ctx.modes
  si = 0
  sm = skeleton.extract(fm, qm, si)
  fs, qs = fm.subs[si], qm.subs[si]
  if len(sm.opmap) != len(fs.ops):
    return [ctx.fail('skeleton_broken', 'operators cannot be mapped back')]
  metas = built.ops[si]
  prod = {}
  for k, fo in enumerate(fs.ops):
    for o in fo.outputs:
      prod[o] = k

  def is_const(ti):
    return fm.buffers[fs.tensors[ti].buffer] is not None

  def cdata(ti):
    t = fs.tensors[ti]
    return np.frombuffer(fm.buffers[t.buffer], dtype=np.float32).reshape(
        t.shape).astype(np.float64)

  def cal_stats(ti):
    v, _ = ctx.ftens[fs.tensors[ti].name]
    return float(np.min(v)), float(np.max(v))

  def eff_stats(ti):
    """R-stats: the statistics a consumer must use for runtime tensor ti."""
    k = prod.get(ti)
    if k is not None and md.kind(modes[k]) == 'SRQ':
      t = metas[k].type
      bits, sym = md.act_bits(modes[k]), md.act_sym(modes[k])
      fx = ref_arith.fixed_output(t, bits)
      if fx is not None:
        return ref_arith.minmax_from_fixed(fx[0], fx[1], bits, sym)
      if t in SAME_AS_INPUT:
        src = fs.ops[k].inputs[metas[k].roles.index('D')]
        return eff_stats(src)
    return cal_stats(ti)

  def act_expected(ti, bits, sym):
    mn, mx = eff_stats(ti)
    e = ref_arith.zp_scale([mn], [mx], bits, sym)
    return e, (None if sym else ref_arith.zp_tie([mn], [mx], bits))

  explained = set()
  symmetric_required = {}   # tensor -> bool (governing config symmetric)
  weight_like = set()       # tensors allowed to carry per-channel parameters

  for k, (meta, mode) in enumerate(zip(metas, modes)):
    kd = md.kind(mode)
    if kd in ('NQ', 'FP16'):
      continue
    t = meta.type
    fo, qo = fs.ops[k], qs.ops[sm.opmap[k]]
    wc = md.wcfg(mode)
    facts0 = {'type': t, 'variant': meta.variant, 'mode': mode, 'kind': kd}

    def weight_check(fi, src_t):
      w = cdata(fi)
      facts = dict(facts0, role='W')
      what = f'{t}[{mode}] weight {fs.tensors[fi].name}'
      weight_like.add(src_t.index)
      symmetric_required[src_t.index] = wc['symmetric']
      if wc['granularity'] == 'CHANNELWISE':
        d = QDIM.get(t)
        if d is None:
          # per-channel parameters on an op whose kernel is per-tensor only
          if src_t.quantized() and len(src_t.scale) > 1:
            c.fail('perchannel_unsupported_op', f'{what}: {len(src_t.scale)} '
                   f'per-channel scales on dimension {src_t.qdim}; the '
                   f'{t} kernel takes per-tensor parameters', facts, t)
          if t != 'BATCH_MATMUL':
            return
          # the values are still checked against the output-channel dimension
          # of the matmul (last, or last-but-one when the RHS is transposed)
          d = w.ndim - 2 if meta.variant == 'const_adjy' else w.ndim - 1
        axes = tuple(i for i in range(w.ndim) if i != d)
        mn, mx = w.min(axis=axes), w.max(axis=axes)
        if src_t.quantized() and len(src_t.scale) > 1 and src_t.qdim != d:
          c.fail('quantized_dimension', f'{what}: dimension {src_t.qdim}, '
                 f'kernel expects {d}', facts, t)
          return
        if src_t.quantized() and len(src_t.scale) == 1 and w.shape[d] > 1:
          c.fail('param_count', f'{what}: one scale for {w.shape[d]} channels',
                 facts, t)
          return
      else:
        mn, mx = np.array([w.min()]), np.array([w.max()])
      e = ref_arith.zp_scale(mn, mx, wc['num_bits'], wc['symmetric'])
      tie = None if wc['symmetric'] else ref_arith.zp_tie(mn, mx, wc['num_bits'])
      c.close(e, src_t, what, facts, tie)

    if kd == 'SRQ':
      bits, sym = md.act_bits(mode), md.act_sym(mode)
      out_q = []
      for pos, (ft_, qt_) in enumerate(zip(fo.outputs, qo.outputs)):
        qt = qs.tensors[qt_]
        explained.add(qt_)
        what = f'{t}[{mode}] result {pos} {fs.tensors[ft_].name}'
        facts = dict(facts0, role='out')
        fx = ref_arith.fixed_output(t, bits)
        if fx is not None:
          c.close((np.array([fx[1]]), np.array([fx[0]])), qt, what, facts)
          symmetric_required[qt_] = None   # kernel-fixed range
        elif t in SAME_AS_INPUT:
          src = qs.tensors[qo.inputs[meta.roles.index('D')]]
          if src.quantized():
            c.close((src.zp, src.scale), qt, what + ' (= input)', facts)
          symmetric_required[qt_] = sym
        else:
          e, tie = act_expected(ft_, bits, sym)
          c.close(e, qt, what, facts, tie)
          symmetric_required[qt_] = sym
        out_q.append(qt)
      in_scale = w_scale = None
      for pos, (fi, qi) in enumerate(zip(fo.inputs, qo.inputs)):
        if fi == -1:
          continue
        role = meta.roles[pos]
        if role == 'I' or fs.tensors[fi].type != T.FLOAT32:
          continue
        qt = qs.tensors[qi]
        explained.add(qi)
        if role == 'B':
          continue
        what = f'{t}[{mode}] operand {pos}({role}) {fs.tensors[fi].name}'
        facts = dict(facts0, role=role)
        if is_const(fi) and t in irm.WEIGHT_OPS:
          weight_check(fi, qt)
          w_scale = qt.scale if qt.quantized() else None
        elif t in SAME_AS_OUTPUT:
          o = out_q[0]
          if o.quantized():
            c.close((o.zp, o.scale), qt, what + ' (= output)', facts)
          symmetric_required[qi] = sym
        elif is_const(fi):
          w = cdata(fi)
          mn, mx = [w.min()], [w.max()]
          c.close(ref_arith.zp_scale(mn, mx, bits, sym), qt, what, facts,
                  None if sym else ref_arith.zp_tie(mn, mx, bits))
          symmetric_required[qi] = sym
        else:
          e, tie = act_expected(fi, bits, sym)
          c.close(e, qt, what, facts, tie)
          symmetric_required.setdefault(qi, sym)
          if in_scale is None and qt.quantized():
            in_scale = qt.scale
      for pos, (fi, qi) in enumerate(zip(fo.inputs, qo.inputs)):
        if fi != -1 and meta.roles[pos] == 'B':
          qt = qs.tensors[qi]
          weight_like.add(qi)
          symmetric_required[qi] = True
          if in_scale is not None and w_scale is not None:
            es = np.ravel(in_scale[0] * w_scale)
            c.close((np.zeros(es.shape, dtype=np.int64), es), qt,
                    f'{t}[{mode}] bias {fs.tensors[fi].name}',
                    dict(facts0, role='B'))
            if qt.quantized() and len(qt.scale) > 1 and qt.qdim != 0:
              c.fail('quantized_dimension', f'{t}[{mode}] bias dimension '
                     f'{qt.qdim}', dict(facts0, role='B'), t)
    else:  # DRQ / WO: weights only
      for pos, (fi, qi) in enumerate(zip(fo.inputs, qo.inputs)):
        if fi == -1 or meta.roles[pos] != 'W' or not is_const(fi):
          continue
        src = qs.tensors[qi]
        if kd == 'WO':
          p = [o for o in qs.ops if qi in o.outputs and o.code == BO.DEQUANTIZE]
          if not p:
            continue  # C03's subject
          src = qs.tensors[p[0].inputs[0]]
        explained.add(src.index)
        weight_check(fi, src)

  # model I/O quantized through INPUT/OUTPUT rules
  for name, lst in (('INPUT', qs.inputs), ('OUTPUT', qs.outputs)):
    m = io.get(name)
    if m and md.kind(m) == 'SRQ':
      bits, sym = md.act_bits(m), md.act_sym(m)
      for ti in lst:
        qt = qs.tensors[ti]
        if not qt.quantized():
          continue
        root = sm.root(ti)
        if ti in explained:
          continue
        explained.add(ti)
        if root < len(fs.tensors) and fs.tensors[root].type == T.FLOAT32:
          e, tie = act_expected(root, bits, sym)
          # a graph output that stays in its producer's quantized form keeps
          # the producer's parameters (DQ/Q pair eliminated)
          if not (name == 'OUTPUT' and ti == root):
            c.close(e, qt, f'{name}[{m}] {qt.name}', {'type': name, 'mode': m},
                    tie)
          symmetric_required.setdefault(ti, sym)

  # generic clauses on every quantized tensor
  for qt in qs.tensors:
    if not qt.quantized():
      continue
    facts = {'tensor': qt.name}
    if not (np.all(np.isfinite(qt.scale)) and np.all(qt.scale > 0)):
      c.fail('scale_not_finite_positive', f'{qt.name}: {qt.scale[:3]}', facts,
             'generic')
    if len(qt.scale) != len(qt.zp):
      c.fail('param_count', f'{qt.name}: {len(qt.scale)} scales, '
             f'{len(qt.zp)} zero points', facts, 'generic')
      continue
    if len(qt.scale) > 1:
      if qt.qdim >= len(qt.shape) or len(qt.scale) != qt.shape[qt.qdim]:
        c.fail('param_count', f'{qt.name}: {len(qt.scale)} scales for shape '
               f'{qt.shape} dim {qt.qdim}', facts, 'generic')
      if qt.index not in weight_like:
        c.fail('perchannel_on_activation', qt.name, facts, 'generic')
    rng = fbparse.INT_RANGE.get(qt.type)
    if rng and (qt.zp.min() < rng[0] or qt.zp.max() > rng[1]):
      c.fail('zero_point_range', f'{qt.name}: {qt.zp[:3]}', facts, 'generic')
    if symmetric_required.get(qt.index) is True and np.any(qt.zp != 0):
      c.fail('symmetric_zero_point', f'{qt.name}: zp {qt.zp[:3]} under a '
             'symmetric config', facts, 'generic')
    if qt.index not in explained:
      c.fail('unexplained_quantized_tensor', qt.name, facts, 'generic')
  return c.fails


def run_case(case, note, skip):
  return common.run_graph_case(PROP, case, note, skip, recipe_plan, oracle,
                               data_kinds=tuple(case.get('dk', ['mix'])))
