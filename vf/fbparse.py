"""Independent reader/decoder of TFLite flatbuffers (no library code).

Parsing uses ai_edge_litert's generated object API only.  Decoding of stored
constants (int4 nibbles, float16, per-channel dequantisation) is written here
from the TFLite storage format.
"""
import numpy as np
import flatbuffers
from ai_edge_litert import schema_py_generated as s

T = s.TensorType
BO = s.BuiltinOperator
BN = {v: k for k, v in vars(BO).items() if not k.startswith('_')}
TN = {v: k for k, v in vars(T).items() if not k.startswith('_')}
NP = {T.FLOAT32: np.float32, T.INT32: np.int32, T.INT8: np.int8,
      T.INT16: np.int16, T.INT64: np.int64, T.FLOAT16: np.float16,
      T.UINT8: np.uint8, T.BOOL: np.bool_}
INT_RANGE = {T.INT4: (-8, 7), T.INT8: (-128, 127), T.INT16: (-32768, 32767),
             T.INT32: (-2**31, 2**31 - 1), T.INT64: (-2**63, 2**63 - 1)}
Q_CODES = (BO.QUANTIZE, BO.DEQUANTIZE)


class PTensor:
  __slots__ = ('index', 'name', 'shape', 'type', 'buffer', 'scale', 'zp',
               'qdim', 'has_q')

  def quantized(self):
    return self.scale is not None and len(self.scale) > 0


class POp:
  __slots__ = ('index', 'code', 'inputs', 'outputs', 'opt_type', 'opt_bytes',
               'opcode_index')


class PSub:
  __slots__ = ('name', 'tensors', 'ops', 'inputs', 'outputs')


class PModel:
  __slots__ = ('raw', 'obj', 'subs', 'buffers', 'sigs', 'n_opcodes',
               'opcodes', 'buf_meta')

  def tensor_bytes(self, t):
    """Raw bytes backing tensor t (None for runtime tensors)."""
    if t.buffer < 0 or t.buffer >= len(self.buffers):
      return None
    return self.buffers[t.buffer]


def _pack_options(opt):
  if opt is None:
    return b''
  b = flatbuffers.Builder(64)
  b.Finish(opt.Pack(b))
  return bytes(b.Output())


def parse(model_bytes):
  """Parse model bytes; raises on malformed input."""
  raw = bytes(model_bytes)
  obj = s.ModelT.InitFromPackedBuf(raw, 0)
  pm = PModel()
  pm.raw, pm.obj = raw, obj
  pm.buffers, pm.buf_meta = [], []
  for b in obj.buffers or []:
    data = None
    if b.data is not None and len(b.data):
      data = bytes(np.asarray(b.data, dtype=np.uint8).tobytes())
    elif b.offset and b.size and b.offset > 1:
      data = raw[b.offset:b.offset + b.size]
    pm.buffers.append(data)
    pm.buf_meta.append((int(b.offset or 0), int(b.size or 0),
                        b.data is not None and len(b.data) > 0))
  pm.opcodes = [max(int(oc.builtinCode), int(oc.deprecatedBuiltinCode))
                for oc in obj.operatorCodes or []]
  pm.n_opcodes = len(pm.opcodes)
  pm.subs = []
  for sg in obj.subgraphs or []:
    ps = PSub()
    ps.name = sg.name.decode() if sg.name is not None else ''
    ps.tensors = []
    for i, t in enumerate(sg.tensors or []):
      pt = PTensor()
      pt.index = i
      pt.name = t.name.decode() if t.name is not None else ''
      pt.shape = [int(k) for k in t.shape] if t.shape is not None else []
      pt.type = int(t.type)
      pt.buffer = int(t.buffer)
      q = t.quantization
      pt.has_q = q is not None
      if q is not None and q.scale is not None and len(q.scale):
        pt.scale = np.asarray(q.scale, dtype=np.float64)
        pt.zp = (np.asarray(q.zeroPoint, dtype=np.int64)
                 if q.zeroPoint is not None else np.zeros(0, dtype=np.int64))
        pt.qdim = int(q.quantizedDimension)
      else:
        pt.scale, pt.zp, pt.qdim = None, None, 0
      ps.tensors.append(pt)
    ps.ops = []
    for i, o in enumerate(sg.operators or []):
      po = POp()
      po.index = i
      po.opcode_index = int(o.opcodeIndex)
      po.code = (pm.opcodes[po.opcode_index]
                 if 0 <= po.opcode_index < pm.n_opcodes else None)
      po.inputs = [int(k) for k in o.inputs] if o.inputs is not None else []
      po.outputs = [int(k) for k in o.outputs] if o.outputs is not None else []
      po.opt_type = int(o.builtinOptionsType)
      po.opt_bytes = _pack_options(o.builtinOptions)
      ps.ops.append(po)
    ps.inputs = [int(k) for k in sg.inputs] if sg.inputs is not None else []
    ps.outputs = [int(k) for k in sg.outputs] if sg.outputs is not None else []
    pm.subs.append(ps)
  pm.sigs = []
  for sd in obj.signatureDefs or []:
    pm.sigs.append({
        'key': sd.signatureKey.decode() if sd.signatureKey is not None else '',
        'sub': int(sd.subgraphIndex),
        'inputs': [(tm.name.decode(), int(tm.tensorIndex))
                   for tm in (sd.inputs or [])],
        'outputs': [(tm.name.decode(), int(tm.tensorIndex))
                    for tm in (sd.outputs or [])],
    })
  return pm


def nelems(shape):
  n = 1
  for k in shape:
    n *= int(k)
  return n


def expected_nbytes(ttype, shape):
  n = nelems(shape)
  if ttype == T.INT4:
    return (n + 1) // 2
  if ttype in NP:
    return n * np.dtype(NP[ttype]).itemsize
  return None


def unpack_int4(raw, n):
  """Low nibble first, two's complement, odd tail padded."""
  b = np.frombuffer(raw, dtype=np.uint8)
  lo = (b & 0x0F).astype(np.int16)
  hi = ((b >> 4) & 0x0F).astype(np.int16)
  v = np.empty(len(b) * 2, dtype=np.int16)
  v[0::2] = lo
  v[1::2] = hi
  v = np.where(v > 7, v - 16, v)
  return v[:n].astype(np.int64)


def stored_values(pm, t):
  """Integer / float array stored for constant tensor t (no dequantisation)."""
  raw = pm.tensor_bytes(t)
  if raw is None:
    return None
  n = nelems(t.shape)
  if t.type == T.INT4:
    return unpack_int4(raw, n).reshape(t.shape)
  dt = NP.get(t.type)
  if dt is None:
    return None
  return np.frombuffer(raw, dtype=dt)[:n].reshape(t.shape)


def dequantize(values, t):
  """Dequantise integer codes with tensor t's own parameters, in float64."""
  v = np.asarray(values, dtype=np.float64)
  sc, zp = t.scale, t.zp
  if len(sc) > 1:
    sh = [1] * v.ndim
    sh[t.qdim] = -1
    sc = sc.reshape(sh)
    zp = zp.reshape(sh) if len(zp) == len(t.scale) else zp
  return (v - zp.astype(np.float64)) * sc


def decode_constant(pm, t):
  """Float64 view of a stored constant (dequantised if quantized)."""
  v = stored_values(pm, t)
  if v is None:
    return None
  if t.quantized():
    return dequantize(v, t)
  return np.asarray(v, dtype=np.float64)


def producers(ps):
  prod = {}
  for o in ps.ops:
    for t in o.outputs:
      prod.setdefault(t, []).append(o.index)
  return prod
