"""LiteRT interpreter helpers (ai_edge_litert only, no library code)."""
import numpy as np
from ai_edge_litert import interpreter as tfl


def interp(model, preserve=True):
  it = tfl.Interpreter(
      model_content=bytes(model),
      experimental_op_resolver_type=(
          tfl.OpResolverType.BUILTIN_WITHOUT_DEFAULT_DELEGATES),
      experimental_preserve_all_tensors=preserve)
  it.allocate_tensors()
  return it


def _q(x, det):
  qp = det['quantization_parameters']
  if len(qp['scales']) and np.issubdtype(det['dtype'], np.integer):
    sc, zp = float(qp['scales'][0]), int(qp['zero_points'][0])
    info = np.iinfo(det['dtype'])
    return np.clip(np.rint(np.asarray(x, dtype=np.float64) / sc) + zp,
                   info.min, info.max).astype(det['dtype'])
  return np.asarray(x).astype(det['dtype'])


def _dq(v, det):
  qp = det['quantization_parameters']
  if len(qp['scales']) and np.issubdtype(v.dtype, np.integer):
    return (v.astype(np.float64) - int(qp['zero_points'][0])) * float(
        qp['scales'][0])
  return np.asarray(v, dtype=np.float64)


def run_signature(model, inputs, key=None, it=None):
  """Run via the signature runner; inputs quantised / outputs dequantised with
  the runner's own details.  Returns (outputs by name, interpreter)."""
  it = it or interp(model)
  sr = it.get_signature_runner(key)
  ins = {}
  for k, det in sr.get_input_details().items():
    ins[k] = _q(inputs[k], det)
  raw = sr(**ins)
  out = {}
  odet = sr.get_output_details()
  for k, v in raw.items():
    out[k] = _dq(v, odet[k])
  return out, it


def run_plain(model, inputs_by_position, it=None):
  """Run through plain subgraph-0 I/O (set_tensor / invoke / get_tensor)."""
  it = it or interp(model)
  idet = it.get_input_details()
  for det, x in zip(idet, inputs_by_position):
    it.set_tensor(det['index'], _q(x, det))
  it.invoke()
  outs = []
  for det in it.get_output_details():
    outs.append(_dq(it.get_tensor(det['index']), det))
  return outs, it


def all_tensors(it, subgraph=0):
  """name -> ndarray for every named tensor that can be read."""
  out = {}
  for det in it.get_tensor_details(subgraph):
    if not det['name']:
      continue
    try:
      out[det['name']] = (it.get_tensor(det['index'], subgraph), det)
    except ValueError:
      continue
  return out
