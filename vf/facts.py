"""Structural facts about a case, used by the known-finding triggers."""
from vf import ir as irm


def graph_facts(ctx, kind='', detail=''):
  built = ctx.built
  try:
    modes, io = ctx.modes
  except Exception:
    modes, io = None, None
  f = {'types': [m.type for m in built.ops[0]],
       'variants': [m.variant for m in built.ops[0]],
       'modes': modes, 'io': io, 'kind': kind, 'detail': str(detail)[:300]}
  return f
