"""Structural facts about a case, used by the known-finding triggers."""
from vf import universe


def graph_facts(ctx, kind='', detail=''):
  built = ctx.built
  types, variants, modes = [], [], []
  io = None
  for si in range(len(built.ops)):
    try:
      m, i = (ctx.modes if si == 0 else
              universe.resolved_modes(built, ctx.recipe, si))
    except Exception:
      m, i = [None] * len(built.ops[si]), None
    if si == 0:
      io = i
    types += [o.type for o in built.ops[si]]
    variants += [o.variant for o in built.ops[si]]
    modes += list(m)
  return {'types': types, 'variants': variants, 'modes': modes, 'io': io,
          'kind': kind, 'detail': str(detail)[:300]}
