"""Bounded-exhaustive generators of graph histories (engine E1 state space).

A state is the event history AddOp(type, variant, operands)* Export(h)?; the
dedup key is the normalised IR itself (see DESIGN.md section 3): operator order
and tensor names are observable by the code under test, so isomorphic graphs
are *not* merged.
"""
import itertools

from vf import ir as irm

T21 = list(irm.SUPPORTED)
U = ['ABS', 'MAXIMUM']
TTOPO = ['FULLY_CONNECTED', 'ADD', 'TANH', 'RESHAPE', 'CONCATENATION', 'SPLIT',
         'ABS']
TCORE = ['FULLY_CONNECTED', 'ADD', 'TANH', 'ABS']


def alphabet(types, variants='all'):
  """[(type, variant, arity)] ; variants: 'all' | 'first' | dict type->list."""
  out = []
  for t in types:
    vs = irm.variants_of(t, extended=(variants == 'allx'))
    if variants == 'first':
      vs = vs[:1]
    elif isinstance(variants, dict) and t in variants:
      vs = [x for x in vs if x[0] in variants[t]]
    for v, ar in vs:
      out.append((t, v, ar))
  return out


def _nout(t):
  return 2 if t == 'SPLIT' else 1


def histories(n, alpha):
  """All operator sequences of length n over alpha (operands: any existing
  handle).  Yields lists of op dicts."""
  def rec(ops, nh):
    if len(ops) == n:
      yield [dict(o) for o in ops]
      return
    for t, v, ar in alpha:
      if ar == 0:
        choices = [()]
      elif ar == 1:
        choices = [(a,) for a in range(nh)]
      else:
        if t in irm.COMMUTATIVE_TT:
          choices = [(a, b) for a in range(nh) for b in range(a, nh)]
        else:
          choices = [(a, b) for a in range(nh) for b in range(nh)]
      for c in choices:
        ops.append({'t': t, 'v': v, 'in': list(c)})
        yield from rec(ops, nh + _nout(t))
        ops.pop()
  yield from rec([], 1)


def export_choices(ops, mode='one'):
  """Export sets: none, plus each single consumed intermediate handle."""
  nh = 1
  used = set()
  for o in ops:
    used.update(o['in'])
    nh += _nout(o['t'])
  inter = [h for h in range(1, nh) if h in used]
  yield []
  if mode == 'none':
    return
  for h in inter:
    yield [h]
  if mode == 'all' and len(inter) > 1:
    yield list(inter)


def graphs(n, alpha, exports='one', **irkw):
  """IRs of all complete states with exactly n operators."""
  for ops in histories(n, alpha):
    for ex in export_choices(ops, exports):
      yield irm.single(ops, ex, **irkw)


def count_events(ir):
  return sum(len(s['ops']) + len(s.get('exports', []))
             for s in ir['subgraphs'])


def chains(n, types, variant='first', exports='none'):
  """All linear chains of n single-operand operators (each consumes the
  previous result): deeper than the DAG bound, no branching."""
  import itertools
  alpha = [a for a in alphabet(types, variant) if a[2] == 1]
  for combo in itertools.product(alpha, repeat=n):
    ops, h = [], 0
    ok = True
    for t, v, _ in combo:
      ops.append({'t': t, 'v': v, 'in': [h]})
      h += 1 if t != 'SPLIT' else 2
      if t == 'SPLIT':
        ok = False
    if ok:
      yield irm.single(ops, [] if exports == 'none' else [n // 2])
