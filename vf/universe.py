"""Shared E1 universe: graphs x recipes x data, as used by C01/C02/C03/C08/C16.

A *case* (unit of dispatch) is one graph IR plus the name of a recipe plan; the
worker builds the model once and iterates recipes x data (sub-cases).
"""
import itertools
import json

from vf import enum_graphs as eg
from vf import ir as irm
from vf import modes
from vf import ref_recipe


def mode_of_cfg(alg, c):
  """Mode name of a (algorithm, config dict) pair, or None."""
  if alg == modes.NOQ:
    return 'NQ'
  for name, (a, mc) in modes.MODES.items():
    if a == alg and _norm(mc) == _norm(c):
      return name
  return None


def _norm(c):
  c = json.loads(json.dumps(c))
  for k in ('weight_tensor_config', 'activation_tensor_config'):
    if k in c:
      c[k].setdefault('block_size', 0)
      c[k].setdefault('granularity', 'TENSORWISE')
      c[k].setdefault('symmetric', True)
      c[k].setdefault('dtype', 'INT')
  c.setdefault('skip_checks', False)
  c.setdefault('explicit_dequantize', False)
  c.setdefault('compute_precision', 'FLOAT')
  return json.dumps(c, sort_keys=True)


def _supported(alg, op, c):
  m = mode_of_cfg(alg, c)
  if m is None:
    raise KeyError('config outside the mode alphabet')
  return modes.supported(op, m)


def scope_of(built, meta):
  return ''.join(built.tname(meta.sub, t) + ';' for t in meta.outs)


def resolved_modes(built, recipe, si=0):
  """R-recipe resolution of every operator (+INPUT/OUTPUT) of subgraph si."""
  rr = ref_recipe.RefRecipe()
  rr.load(recipe)
  out = []
  for meta in built.ops[si]:
    if meta.type not in irm.SUPPORTED:
      out.append('NQ')
      continue
    alg, c = rr.resolve(meta.type, scope_of(built, meta), _supported)
    out.append(mode_of_cfg(alg, c))
  ins = ''.join(built.tname(si, t) + ';' for _, t, _ in built.inputs[si])
  outs = ''  # the virtual OUTPUT op has no outputs => empty scope
  io = {}
  alg, c = rr.resolve('INPUT', ins, _supported)
  io['INPUT'] = mode_of_cfg(alg, c)
  alg, c = rr.resolve('OUTPUT', outs, _supported)
  io['OUTPUT'] = mode_of_cfg(alg, c)
  return out, io


# ---------------------------------------------------------------------------
# recipe plans
# ---------------------------------------------------------------------------
def recipes_for(built, plan, si=0):
  """Yields (subkey, recipe).  plan: dict with keys
     shipped: bool, uniform: [modes], perop: [modes] | None,
     io: [io names], io_on: 'all' | 'uniform'."""
  base = []
  if plan.get('shipped'):
    for n, r in modes.shipped_recipes().items():
      if isinstance(plan['shipped'], (list, tuple)) and n not in plan['shipped']:
        continue
      base.append((f'R1:{n}', r, 'shipped'))
  for m in plan.get('uniform', []):
    base.append((f'R2:{m}', [modes.rule('.*', '*', m)], 'uniform'))
  if plan.get('perop'):
    choices = []
    for meta in built.ops[si]:
      if meta.type not in irm.SUPPORTED:
        choices.append([None])
      else:
        choices.append([m for m in plan['perop']
                        if modes.supported(meta.type, m)])
    for assign in itertools.product(*choices):
      if all(a in (None, 'NQ') for a in assign):
        continue
      base.append(('R3:' + ','.join(a or '-' for a in assign),
                   modes.per_op_recipe(built, assign, si), 'perop'))
  if plan.get('layered'):
    # R4: uniform rule followed by per-operator overrides incl. no_quantize
    for m in plan['layered']['base']:
      for k, meta in enumerate(built.ops[si]):
        if meta.type not in irm.SUPPORTED:
          continue
        for om in plan['layered']['override']:
          if om != 'NQ' and not modes.supported(meta.type, om):
            continue
          r = [modes.rule('.*', '*', m),
               modes.rule(modes.op_regex(built, meta), meta.type, om)]
          base.append((f'R4:{m}+op{k}={om}', r, 'layered'))
  if plan.get('shadow'):
    # R5: a '*' rule most operators do not support, followed by an
    # operator-specific rule stored under the SAME regex: the unsupported rule
    # must be skipped for the operator, not end the scan of that regex
    types = []
    for meta in built.ops[si]:
      if meta.type in irm.SUPPORTED and meta.type not in types:
        types.append(meta.type)
    for m in plan['shadow']['base']:
      for t in types:
        for om in plan['shadow']['override']:
          if not modes.supported(t, om):
            continue
          base.append((f'R5:{m}+{t}={om}',
                       [modes.rule('.*', '*', m), modes.rule('.*', t, om)],
                       'layered'))
  ios = plan.get('io', ['none'])
  for key, r, cls in base:
    for io in ios:
      if io != 'none' and plan.get('io_on', 'all') != 'all' and \
          cls not in plan['io_on']:
        continue
      if io == 'none':
        yield key, r
      else:
        yield f'{key}|io={io}', r + modes.io_rules(io)


def graph_cases(spec, extra=None, sigrev=False, sigrev_extra=None):
  """spec: list of (n_ops, type list, variants, exports-mode) -> case dicts."""
  for n, types, variants, exports in spec:
    alpha = eg.alphabet(types, variants)
    for g in eg.graphs(n, alpha, exports):
      c = {'ir': g}
      if extra:
        c.update(extra)
      yield c
      if sigrev and all(
          o['v'] == irm.FIRST_VARIANT[o['t']][0]
          for o in g['subgraphs'][0]['ops']) and (
              g['subgraphs'][0]['exports'] or any(
          o['t'] in ('SPLIT', 'EMBEDDING_LOOKUP')
          for o in g['subgraphs'][0]['ops'])):
        # same graph, signature entries listed in the opposite order
        for kw in ({'sigorder': 'rev'}, {'ioorder': 'rev'}, {'dupout': True},
                   {'xout': True}):
          g2 = {'subgraphs': [dict(g['subgraphs'][0], **kw)]}
          c2 = {'ir': g2}
          if extra:
            c2.update(extra)
          if sigrev_extra:
            c2.update(sigrev_extra)
          yield c2


def multi_cases(types, extra=None, share=False):
  """Two-subgraph (two-signature) models: ordered pairs of one-operator graphs
  with disjoint name prefixes."""
  alpha = eg.alphabet(types, 'first')
  g1 = [ops for ops in eg.histories(1, alpha)]
  for a in g1:
    for b in g1:
      for k, rev in enumerate((False, True)):
        # every 3rd pair also with signature_defs listed in reverse order
        if rev and (len(a[0]['t']) + 2 * len(b[0]['t'])) % 3:
          continue
        c = {'ir': {'subgraphs': [
            {'ops': a, 'exports': []},
            {'ops': b, 'exports': [], 'prefix': 'b_', 'key': 'sig1'}]}}
        if rev:
          c['ir']['sigdefs'] = 'rev'
        if extra:
          c.update(extra)
        yield c
