"""R-arith: reference quantization arithmetic in float64 (TFLite spec)."""
import numpy as np

MIN_BOUND = 1e-4


def qrange(bits, narrow=False):
  lo, hi = -(2 ** (bits - 1)), 2 ** (bits - 1) - 1
  return (lo + 1 if narrow else lo), hi


def zp_scale(mn, mx, bits, sym):
  """min/max -> (zero point int64, scale float64); arrays allowed."""
  mn = np.asarray(mn, dtype=np.float64)
  mx = np.asarray(mx, dtype=np.float64)
  qmin, qmax = qrange(bits)
  if sym:
    b = np.maximum(np.maximum(np.abs(mn), np.abs(mx)), MIN_BOUND)
    return np.zeros(b.shape, dtype=np.int64), b / qmax
  bmax = np.maximum(mx, 0.0)
  bmin = np.minimum(mn, 0.0)
  b = np.maximum(bmax - bmin, MIN_BOUND)
  sc = b / (qmax - qmin)
  return np.rint(qmin - bmin / sc).astype(np.int64), sc


def zp_tie(mn, mx, bits):
  """distance of the pre-rounding zero point from a .5 tie (asymmetric)."""
  mn = np.asarray(mn, dtype=np.float64)
  mx = np.asarray(mx, dtype=np.float64)
  qmin, qmax = qrange(bits)
  bmax = np.maximum(mx, 0.0)
  bmin = np.minimum(mn, 0.0)
  b = np.maximum(bmax - bmin, MIN_BOUND)
  z = qmin - bmin / (b / (qmax - qmin))
  return np.abs(np.abs(z - np.floor(z)) - 0.5)


def quantize(x, scale, zp, bits, narrow):
  lo, hi = qrange(bits, narrow)
  q = np.rint(np.asarray(x, dtype=np.float64) / scale + zp)
  return np.clip(q, lo, hi).astype(np.int64)


def dequantize(q, scale, zp):
  return (np.asarray(q, dtype=np.float64) - zp) * scale


def fixed_output(optype, bits):
  """(scale, zero point) hard-coded in the runtime kernels."""
  if optype in ('SOFTMAX', 'LOGISTIC'):
    return (1.0 / 256, -128) if bits == 8 else (1.0 / 32768, 0)
  if optype == 'TANH':
    return (1.0 / 128, 0) if bits == 8 else (1.0 / 32768, 0)
  return None


def minmax_from_fixed(scale, zp, bits, sym):
  qmin, qmax = qrange(bits)
  mx = (qmax - zp) * scale
  mn = (qmin - zp) * scale
  if sym:
    mn = -mx
  return mn, mx
