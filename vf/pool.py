"""Forked worker pool with per-(sub)case death attribution.

The parent imports the heavy libraries once and forks workers afterwards.
Each worker announces the sub-case it is about to run (`note(key)`); if the
worker process dies (LiteRT abort, segfault) the parent attributes the death to
exactly that sub-case, records it, respawns the worker and re-queues the rest
of the case with that sub-case skipped.  This is the "sandboxed child process"
the interpreter-facing properties ask for.
"""
import multiprocessing as mp
import multiprocessing.connection as mpc
import os
import signal
import sys
import time
import traceback

_CTX = mp.get_context('fork')


def _worker_main(conn, fn, init):
  signal.signal(signal.SIGINT, signal.SIG_IGN)
  covdir = os.environ.get('VERIF_COV')
  if covdir:
    from vf import cov, env
    cov.start(os.path.join(env.REPO, 'ai_edge_quantizer'))
  try:
    if init is not None:
      init()
    while True:
      msg = conn.recv()
      if msg is None:
        break
      for idx, case, skip in msg:
        def note(key, _idx=idx):
          conn.send(('note', _idx, key))
        try:
          res = fn(case, note, skip)
        except BaseException as e:  # harness error, never a violation
          res = {'harness_error': ''.join(
              traceback.format_exception(type(e), e, e.__traceback__))[-3000:]}
        conn.send(('res', idx, res))
      if covdir:
        cov.dump(covdir)
      conn.send(('idle',))
  except (EOFError, KeyboardInterrupt, BrokenPipeError):
    pass
  finally:
    os._exit(0)


class _W:
  def __init__(self, fn, init):
    self.conn, child = _CTX.Pipe()
    self.proc = _CTX.Process(target=_worker_main, args=(child, fn, init),
                             daemon=True)
    self.proc.start()
    child.close()
    self.chunk = []      # [(idx, case, skip)] outstanding, in order
    self.last_note = None


def run(fn, cases, on_result, nworkers, init=None, chunk=8, deadline=None,
        on_death=None, serial=False):
  """Run fn over cases.  Returns dict(stats).

  fn(case, note, skip) -> picklable result.
  on_result(case, result) is called in the parent.
  on_death(case, subkey) is called when a worker died while running subkey.
  """
  stats = {'cases': 0, 'deaths': 0, 'capped': False}
  if serial or nworkers <= 1:
    for case in cases:
      if deadline and time.time() > deadline:
        stats['capped'] = True
        break
      try:
        res = fn(case, lambda k: None, frozenset())
      except BaseException as e:
        res = {'harness_error': ''.join(
            traceback.format_exception(type(e), e, e.__traceback__))[-3000:]}
      stats['cases'] += 1
      on_result(case, res)
    return stats

  it = iter(enumerate(cases))
  store = {}        # idx -> case
  skips = {}        # idx -> set of dead subkeys
  requeue = []
  workers = [_W(fn, init) for _ in range(nworkers)]
  exhausted = False

  def next_chunk():
    nonlocal exhausted
    out = []
    while requeue and len(out) < chunk:
      out.append(requeue.pop())
    while not exhausted and len(out) < chunk:
      if deadline and time.time() > deadline:
        stats['capped'] = True
        exhausted = True
        break
      try:
        idx, case = next(it)
      except StopIteration:
        exhausted = True
        break
      store[idx] = case
      out.append((idx, case, frozenset()))
    return out

  def feed(w):
    ch = next_chunk()
    if ch:
      w.chunk = list(ch)
      w.last_note = None
      w.conn.send(ch)
      return True
    return False

  active = {}
  for w in workers:
    if feed(w):
      active[w.conn] = w
  try:
    while active or requeue:
      if not active:
        nw = _W(fn, init)
        workers.append(nw)
        if feed(nw):
          active[nw.conn] = nw
        continue
      ready = mpc.wait(list(active.keys()), timeout=5)
      for conn in ready:
        w = active[conn]
        try:
          msg = conn.recv()
        except (EOFError, ConnectionResetError, OSError):
          # worker died
          stats['deaths'] += 1
          del active[conn]
          try:
            w.proc.join(timeout=1)
          except Exception:
            pass
          if w.chunk:
            idx, case, skip = w.chunk[0]
            key = w.last_note[1] if (w.last_note and w.last_note[0] == idx) \
                else None
            if on_death is not None:
              on_death(case, key)
            rest = w.chunk[1:]
            if key is not None:
              nskip = frozenset(set(skip) | {key})
              requeue.append((idx, case, nskip))
            else:
              # died outside any announced sub-case: do not retry the case
              stats['cases'] += 1
              on_result(case, {'harness_error': 'worker died outside a '
                                                'sub-case (exit %s)' %
                                                w.proc.exitcode})
              store.pop(idx, None)
            requeue.extend(rest)
          nw = _W(fn, init)
          workers.append(nw)
          if feed(nw):
            active[nw.conn] = nw
          else:
            nw.conn.send(None)
          continue
        if msg[0] == 'note':
          w.last_note = (msg[1], msg[2])
        elif msg[0] == 'res':
          _, idx, res = msg
          assert w.chunk and w.chunk[0][0] == idx
          w.chunk.pop(0)
          stats['cases'] += 1
          on_result(store.pop(idx), res)
        elif msg[0] == 'idle':
          if not feed(w):
            try:
              conn.send(None)
            except Exception:
              pass
            del active[conn]
  finally:
    for w in workers:
      try:
        w.proc.terminate()
      except Exception:
        pass
    for w in list(active.values()):
      try:
        w.proc.terminate()
      except Exception:
        pass
  return stats
