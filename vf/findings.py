"""Known findings: genuine defects recorded rather than repaired.

known_findings.json lists, per finding, the property, a regex on the failure
kind and the name of a *structural trigger* (a predicate over facts the oracle
derives from the case: IR, resolved modes, failing tensor/operator).  A failure
matches a finding only if property, kind and trigger all match; everything else
is reported as a VIOLATION.  The file is never written at run time.
"""
import json
import os
import re

from vf import env

_FINDINGS = []
_BY_ID = {}

# trigger name -> predicate(facts) ; facts is a plain dict built by the oracle
TRIGGERS = {}


def trigger(name):
  def deco(fn):
    TRIGGERS[name] = fn
    return fn
  return deco


def load(path=None):
  global _FINDINGS, _BY_ID
  path = path or os.path.join(env.VERIF, 'known_findings.json')
  _FINDINGS, _BY_ID = [], {}
  if not os.path.exists(path):
    return
  doc = json.load(open(path))
  for f in doc.get('findings', []):
    if f.get('status', 'open') != 'open':
      continue
    f['_kind_re'] = re.compile(f['kind'])
    if f['trigger'] not in TRIGGERS:
      raise RuntimeError(f"unknown trigger {f['trigger']} in {path}")
    _FINDINGS.append(f)
    _BY_ID[f['id']] = f


def classify(prop, kind, facts):
  """Returns the id of the listed finding this failure is an instance of."""
  for f in _FINDINGS:
    if f['property'] != prop:
      continue
    if not f['_kind_re'].fullmatch(kind):
      continue
    try:
      if TRIGGERS[f['trigger']](facts or {}):
        return f['id']
    except Exception:
      continue
  return None


def describe(fid):
  f = _BY_ID.get(fid)
  return f['what'] if f else fid


def fail(prop, kind, detail, sub=None, facts=None, group=''):
  """Build a failure record, classified against the known findings."""
  if not group:
    group = re.sub(r'\d+', 'N', str(detail))[:80]
  return {'kind': kind, 'detail': detail, 'sub': sub, 'group': group,
          'facts': facts or {},
          'finding': classify(prop, kind, facts or {})}


# ----------------------------------------------------------------------------
# triggers (each one is the structural signature of one recorded defect)
# ----------------------------------------------------------------------------
@trigger('always')
def _always(f):
  return True


def _act16(mode):
  return bool(mode) and mode.startswith('SRQ16')


@trigger('add_sub_int16_pot_scale')
def _pot16(f):
  """An ADD/SUB operator resolved to a 16-bit static-range mode, and LiteRT's
  add.cc/sub.cc power-of-two shift assertion is what failed."""
  if not re.search(r'kernels/(add|sub)\.cc:\d+ .*input\d_shift', f.get('detail', '')):
    return False
  return any(t in ('ADD', 'SUB') and _act16(m)
             for t, m in zip(f.get('types', []), f.get('modes') or []))


@trigger('graph_output_renamed_by_inserted_op')
def _out_renamed(f):
  """A QUANTIZE/DEQUANTIZE was inserted at a graph output and the new output
  tensor is named '<original>_dequant' / '<original>_quantized' (+ '_k')."""
  o, n = f.get('orig'), f.get('new')
  if not o or not n or not f.get('via_inserted'):
    return False
  return re.fullmatch(re.escape(o) + r'_(dequant|quantized)(_\d+)?', n) is not None


@trigger('asym_range_exceeds_float32')
def _f32_overflow(f):
  if f.get('sym') is not False:
    return False
  span = max(float(f.get('max', 0)), 0.0) - min(float(f.get('min', 0)), 0.0)
  return span > 3.4028234663852886e38


@trigger('bmm_constant_weight_channelwise')
def _bmm_cw(f):
  from vf import modes as md
  m = f.get('mode')
  return (f.get('type') == 'BATCH_MATMUL' and m in md.MODES and
          md.wcfg(m)['granularity'] == 'CHANNELWISE')


def _up(f):
  idx = f.get('upstream') or []
  t, m = f.get('types') or [], f.get('modes') or []
  v, w = f.get('variants') or [], f.get('wshapes') or []
  return [(t[i], m[i], v[i] if i < len(v) else None,
           w[i] if i < len(w) else None) for i in idx if i < len(t)]


@trigger('upstream_depthwise_dynamic_tensorwise')
def _dw_drq_t(f):
  from vf import modes as md
  return any(t == 'DEPTHWISE_CONV_2D' and mo in md.MODES and
             md.kind(mo) == 'DRQ' and
             md.wcfg(mo)['granularity'] == 'TENSORWISE'
             for t, mo, _, _ in _up(f))


@trigger('upstream_embedding_int4_odd_width')
def _emb4(f):
  from vf import modes as md
  return any(t == 'EMBEDDING_LOOKUP' and mo in md.MODES and
             md.kind(mo) == 'DRQ' and md.wcfg(mo)['num_bits'] == 4 and
             w and w[-1] % 2 == 1 for t, mo, _, w in _up(f))


@trigger('upstream_bmm_static_channelwise')
def _bmm_srq_cw(f):
  from vf import modes as md
  return any(t == 'BATCH_MATMUL' and str(v).startswith('const') and
             mo in md.MODES and md.kind(mo) == 'SRQ' and
             md.wcfg(mo)['granularity'] == 'CHANNELWISE'
             for t, mo, v, _ in _up(f))
