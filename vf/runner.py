"""Check driver: explores a plan on the worker pool, classifies failures
against known_findings.json, confirms and stores violations, writes evidence.

Exit codes: 0 property held on everything explored (KNOWN-FINDING lines
possible); 1 at least one unlisted violation (VIOLATION lines); 3 harness
error (never reported as a violation).
"""
import argparse
import collections
import hashlib
import importlib
import json
import os
import sys
import time

from vf import env
from vf import findings as findings_mod
from vf import pool

MAX_REPORTED = 12


def _jsonable(x):
  import numpy as np
  if isinstance(x, dict):
    return {str(k): _jsonable(v) for k, v in x.items()}
  if isinstance(x, (list, tuple, set, frozenset)):
    return [_jsonable(v) for v in x]
  if isinstance(x, (np.integer,)):
    return int(x)
  if isinstance(x, (np.floating,)):
    return float(x)
  if isinstance(x, np.ndarray):
    return _jsonable(x.tolist())
  if isinstance(x, bytes):
    return x.hex()
  return x


class Aggregator:
  def __init__(self, prop, plan, tier, seed):
    self.prop, self.plan, self.tier, self.seed = prop, plan, tier, seed
    self.evals = 0
    self.nontrivial = 0
    self.states = 0
    self.transitions = 0
    self.traces = 0
    self.hashes = set()
    self.counts = collections.Counter()
    self.kf_hits = collections.Counter()
    self.kf_examples = {}
    self.candidates = []       # (case, failure)
    self.cand_keys = collections.Counter()
    self.harness_errors = []
    self.samples = []
    self.deaths = 0
    self.merged = {}

  def on_result(self, case, res):
    if res is None:
      return
    if 'harness_error' in res:
      self.harness_errors.append((case, res['harness_error']))
      return
    self.evals += res.get('evals', 0)
    self.nontrivial += res.get('nontrivial', 0)
    self.states += res.get('states', 0)
    self.transitions += res.get('transitions', 0)
    self.traces += res.get('traces', 0)
    for h in res.get('hashes', ()):
      self.hashes.add(h)
    for k, v in (res.get('merge') or {}).items():
      self.merged.setdefault(k, set()).add(v)
    for k, v in res.get('counts', {}).items():
      self.counts[k] += v
    if res.get('sample') is not None and len(self.samples) < 3:
      self.samples.append(res['sample'])
    for fid, (n, ex) in (res.get('kf') or {}).items():
      self.kf_hits[fid] += n
      if fid not in self.kf_examples:
        self.kf_examples[fid] = {'case': case, 'sub': ex.get('sub'),
                                 'detail': ex.get('detail')}
    for f in res.get('fails', ()):
      self.add_failure(case, f)

  def add_failure(self, case, f):
    fid = f.get('finding')
    if fid:
      self.kf_hits[fid] += 1
      if fid not in self.kf_examples:
        self.kf_examples[fid] = {'case': case, 'sub': f.get('sub'),
                                 'detail': f.get('detail')}
      return
    key = (f.get('kind'), f.get('group', ''))
    self.cand_keys[key] += 1
    # keep the first few of each kind (BFS order => shortest first)
    if self.cand_keys[key] <= 2 and len(self.candidates) < 80:
      self.candidates.append((case, f))
    dump = os.environ.get('VERIF_DUMP')
    if dump and self.cand_keys[key] <= 6:
      with open(dump, 'a') as fh:
        fh.write(json.dumps(_jsonable({'key': key, 'case': case, 'f': f})) + '\n')

  def on_death(self, case, subkey):
    self.deaths += 1
    mod = self.plan['module']
    f = {'kind': 'process_abort', 'sub': subkey, 'group': '',
         'detail': 'worker process died while running this sub-case'}
    if hasattr(mod, 'classify_death'):
      f = mod.classify_death(case, subkey, f)
    self.add_failure(case, f)


def _replay_path(prop, case, f):
  blob = json.dumps(_jsonable({'case': case, 'sub': f.get('sub'),
                               'kind': f.get('kind')}), sort_keys=True)
  h = hashlib.sha256(blob.encode()).hexdigest()[:12]
  d = os.path.join(os.environ.get('VERIF_OUT_DIR', env.VERIF), 'replays', prop)
  os.makedirs(d, exist_ok=True)
  return os.path.join(d, f"{f.get('kind', 'fail')}_{h}.json")


def confirm(mod, case, f):
  """Re-run one failing sub-case in a freshly forked process."""
  got = []
  c = dict(case)
  c['only'] = f.get('sub')

  def on_res(_case, res):
    got.append(res)
  deaths = []
  pool.run(mod.run_case, [c], on_res, nworkers=2, chunk=1,
           init=getattr(mod, 'worker_init', None),
           on_death=lambda cs, sk: deaths.append(sk))
  if f.get('kind') == 'process_abort':
    return bool(deaths)
  for res in got:
    if res and 'harness_error' not in res:
      for g in res.get('fails', ()):
        if g.get('kind') == f.get('kind') and not g.get('finding'):
          return True
  return False


def confirm_with_history(mod, tier, seed, case, f, k=16):
  """A failure that does not reproduce alone may depend on process-global state
  left by earlier cases (a module-level cache): replay the k cases that precede
  it in the plan, in the same fresh worker, then the failing case."""
  import collections as _c
  target = json.dumps(_jsonable({x: v for x, v in case.items() if x != 'only'}),
                      sort_keys=True)
  prev = _c.deque(maxlen=k)
  found = False
  for c in mod.plan(tier, seed)['cases']:
    if json.dumps(_jsonable(c), sort_keys=True) == target:
      found = True
      break
    prev.append(c)
  if not found or not prev:
    return None
  seq = [dict(c) for c in prev]
  last = dict(case)
  last['only'] = f.get('sub')
  seq.append(last)
  got = []
  pool.run(mod.run_case, seq, lambda _c2, res: got.append(res), nworkers=2,
           chunk=len(seq), init=getattr(mod, 'worker_init', None))
  for res in got[-1:]:
    if res and 'harness_error' not in res:
      for g in res.get('fails', ()):
        if g.get('kind') == f.get('kind') and not g.get('finding'):
          return [_jsonable(c) for c in prev]
  return None


def write_evidence(prop, tier, seed, level, coverage, assumptions, wall,
                   violations):
  ev = {'property_id': prop, 'tier': tier, 'seed': int(seed), 'level': level,
        'coverage': _jsonable(coverage), 'assumptions': assumptions,
        'wall_s': round(wall, 2), 'violations': int(violations)}
  d = os.path.join(os.environ.get('VERIF_OUT_DIR', env.VERIF), 'evidence')
  os.makedirs(d, exist_ok=True)
  tmp = os.path.join(d, f'.{prop}.json.tmp')
  with open(tmp, 'w') as fh:
    json.dump(ev, fh, indent=1, sort_keys=True)
  os.replace(tmp, os.path.join(d, f'{prop}.json'))


def run_check(prop, tier, max_seconds=None):
  t0 = time.time()
  seed = env.seed()
  mod = importlib.import_module(f'vf.oracles.{prop.lower()}')
  env.lib()  # import TF & the library once, before forking
  findings_mod.load()
  plan = mod.plan(tier, seed)
  plan['module'] = mod
  budget = max_seconds or plan.get('budget_s')
  deadline = (t0 + budget) if budget else None
  agg = Aggregator(prop, plan, tier, seed)
  nworkers = plan.get('workers') or env.ncpu()
  st = pool.run(mod.run_case, plan['cases'], agg.on_result, nworkers,
                init=plan.get('init'),
                chunk=plan.get('chunk', 8), deadline=deadline,
                on_death=agg.on_death, serial=plan.get('serial', False))
  if hasattr(mod, 'finish'):
    # whole-run oracles (e.g. revisit agreement); returns extra failures
    for case, f in mod.finish(agg) or ():
      agg.add_failure(case, f)

  # ---- harness errors
  if agg.harness_errors:
    for case, err in agg.harness_errors[:5]:
      print('HARNESS-ERROR', json.dumps(_jsonable(case))[:400])
      print(err)
    print(f'harness errors: {len(agg.harness_errors)}')

  # ---- violations: confirm in a fresh process, store replay
  violations = []
  unconfirmed = []
  for case, f in agg.candidates:
    if len(violations) >= MAX_REPORTED:
      break
    preceded_by = None
    if plan.get('confirm', True) and not confirm(mod, case, f):
      preceded_by = confirm_with_history(mod, tier, seed, case, f)
      if preceded_by is None:
        unconfirmed.append((case, f))
        continue
      f = dict(f, detail=str(f.get('detail')) + ' [only after the preceding '
               'cases ran in the same process: depends on process-global state]')
    path = _replay_path(prop, case, f)
    with open(path, 'w') as fh:
      json.dump(_jsonable({'property': prop, 'case': case, 'sub': f.get('sub'),
                           'failure': f, 'preceded_by': preceded_by,
                           'verif_seed': int(seed),
                           'replay_cmd': f'./check {prop} --replay {path}'}),
                fh, indent=1, sort_keys=True)
    violations.append((path, f))
  for fid, n in sorted(agg.kf_hits.items()):
    print(f'KNOWN-FINDING: property={prop} {findings_mod.describe(fid)} '
          f'[{fid}; {n} hits]')
  for path, f in violations:
    print(f"  {f.get('kind')}: {str(f.get('detail'))[:300]}")
    print(f'VIOLATION property={prop} replay={path}')
  n_viol_total = sum(agg.cand_keys.values())

  cov = {
      'states': max(1, agg.states),
      'transitions': max(1, agg.transitions),
      'traces_validated_against_impl': agg.traces,
      'evaluations': agg.evals,
      'distinct_nontrivial': len(agg.hashes),
      'nontrivial_cases': agg.nontrivial,
      'rule': plan.get('rule', ''),
      'samples': agg.samples or plan.get('samples', []),
      'bounds': plan.get('bounds', {}),
      'alphabet': plan.get('alphabet', {}),
      'exhaustive': bool(plan.get('exhaustive', True)) and not st['capped'],
      'caps_hit': (['time budget %ss reached; remaining cases not run' % budget]
                   if st['capped'] else []),
      'outcome_counts': dict(agg.counts),
      'known_finding_hits': dict(agg.kf_hits),
      'unlisted_failures_by_kind': {f'{k[0]}|{k[1]}': v
                                    for k, v in agg.cand_keys.items()},
      'worker_deaths': agg.deaths,
      'cases_dispatched': st['cases'],
      'workers': nworkers,
  }
  cov.update(plan.get('coverage_extra', {}))
  if hasattr(mod, 'coverage_extra'):
    cov.update(mod.coverage_extra(agg) or {})
  write_evidence(prop, tier, seed, 'model_checking', cov,
                 plan.get('assumptions', []), time.time() - t0,
                 n_viol_total)
  print(f'{prop} {tier}: states={cov["states"]} transitions='
        f'{cov["transitions"]} evaluations={agg.evals} '
        f'distinct_nontrivial={len(agg.hashes)} '
        f'violations={n_viol_total} known_finding_hits='
        f'{sum(agg.kf_hits.values())} wall={time.time() - t0:.1f}s'
        f'{" CAPPED" if st["capped"] else ""}')
  if agg.harness_errors:
    return 3
  if unconfirmed and not violations:
    print('HARNESS-ERROR: %d failure(s) did not reproduce in a fresh process'
          % len(unconfirmed))
    for case, f in unconfirmed[:3]:
      print('  ', f.get('kind'), f.get('sub'), str(f.get('detail'))[:200])
    return 3
  return 1 if violations else 0


def run_replay(prop, path):
  mod = importlib.import_module(f'vf.oracles.{prop.lower()}')
  env.lib()
  findings_mod.load()
  rec = json.load(open(path))
  if 'verif_seed' in rec:
    os.environ['VERIF_SEED'] = str(rec['verif_seed'])   # same value pool
  case = rec['case']
  case['only'] = rec.get('sub')
  for c in rec.get('preceded_by') or []:
    mod.run_case(c, lambda k: None, frozenset())   # rebuild the process state
  res = mod.run_case(case, lambda k: None, frozenset())
  bad = [f for f in res.get('fails', ()) if not f.get('finding')]
  for f in res.get('fails', ()):
    print(('VIOLATED ' if not f.get('finding') else 'known-finding ') +
          f"{f.get('kind')}: {f.get('detail')}")
  if bad:
    print(f'VIOLATION property={prop} replay={path}')
    return 1
  print('replay: property held on this case')
  return 0


def main(argv=None):
  ap = argparse.ArgumentParser()
  ap.add_argument('prop')
  ap.add_argument('--tier', default=os.environ.get('VERIF_TIER', 'quick'),
                  choices=['quick', 'thorough'])
  ap.add_argument('--replay')
  ap.add_argument('--max-seconds', type=float)
  a = ap.parse_args(argv)
  prop = a.prop.upper()
  if a.replay:
    return run_replay(prop, a.replay)
  return run_check(prop, a.tier, a.max_seconds)


if __name__ == '__main__':
  sys.exit(main())
