"""Driving the real API: Quantizer(...) -> calibrate -> quantize."""
import copy
import hashlib
import traceback

import numpy as np

from vf import env, lite


class Outcome:
  __slots__ = ('stage', 'exc', 'exc_type', 'exc_msg', 'model', 'cal', 'qt',
               'tb', 'cal_snapshot')

  def __init__(self):
    self.stage = 'ok'
    self.exc = self.exc_type = self.exc_msg = self.tb = None
    self.model = self.cal = self.qt = self.cal_snapshot = None

  @property
  def returned(self):
    return self.stage == 'ok' and self.model is not None

  def exc_key(self):
    import re
    msg = re.sub(r"b?'[^']*'", '<name>', self.exc_msg or '')
    msg = re.sub(r'\bop\d+_\w+(/\w+)?', '<name>', msg)
    return f'{self.stage}:{self.exc_type}:{msg[:70]}'


def _fail(o, stage, e):
  o.stage = stage
  o.exc = e
  o.exc_type = type(e).__name__
  o.exc_msg = str(e)
  o.tb = ''.join(traceback.format_exception(type(e), e, e.__traceback__))[-1500:]
  return o


def quantize(model, recipe, cal_data=None, key=None, cal=None, multi=None):
  """Returns an Outcome.  stage: 'load' (recipe refused), 'calibrate',
  'quantize' (exception), or 'ok'.  multi: [(signature key, dataset), ...] for
  models with several signatures (calibrated one after the other, resuming)."""
  L = env.lib()
  o = Outcome()
  try:
    qt = L.quantizer.Quantizer(model, copy.deepcopy(recipe))
  except Exception as e:  # recipe refused at load time
    return _fail(o, 'load', e)
  o.qt = qt
  if cal is None and qt.need_calibration:
    try:
      if multi:
        for k, ds in multi:
          cal = qt.calibrate(ds, k, cal)
      else:
        cal = qt.calibrate(cal_data, key)
    except Exception as e:
      return _fail(o, 'calibrate', e)
  o.cal_snapshot = copy.deepcopy(cal)
  o.cal = cal
  try:
    res = qt.quantize(cal)
  except Exception as e:
    return _fail(o, 'quantize', e)
  o.model = bytes(res.quantized_model)
  return o


def sha(b):
  return hashlib.sha256(bytes(b)).hexdigest()[:16]


def float_run(built, kind, si=0):
  """Float model on data `kind`: (inputs, outputs, finite?, all tensors)."""
  data = built.input_data(si, kind)
  outs, it = lite.run_signature(built.model, data, built.keys[si])
  tens = lite.all_tensors(it, si)
  finite = all(np.all(np.isfinite(v)) for v, _ in tens.values()
               if np.issubdtype(v.dtype, np.floating))
  return data, outs, finite, tens
