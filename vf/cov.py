"""Development aid (not part of any check): which library lines do the
explorations execute?  Enabled with VERIF_COV=<dir>; each worker writes
<dir>/<pid>.json.  Uses sys.monitoring (every location reports once)."""
import json
import os
import sys

_lines = set()
_root = None


def start(root):
  global _root
  _root = root
  mon = sys.monitoring
  tid = mon.COVERAGE_ID
  try:
    mon.use_tool_id(tid, 'vfcov')
  except ValueError:
    return

  def on_line(code, line):
    fn = code.co_filename
    if fn.startswith(root):
      _lines.add((fn, line))
    return mon.DISABLE

  mon.register_callback(tid, mon.events.LINE, on_line)
  mon.set_events(tid, mon.events.LINE)


def dump(d):
  os.makedirs(d, exist_ok=True)
  tmp = os.path.join(d, f'{os.getpid()}.json.tmp')
  with open(tmp, 'w') as f:
    json.dump(sorted(_lines), f)
  os.replace(tmp, tmp[:-4])
