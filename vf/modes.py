"""Mode / recipe alphabet (plain dict recipes, as a user would write them)."""
import glob
import json
import os
import re

from vf import env

MMU = 'min_max_uniform_quantize'
FC_ = 'float_casting'
NOQ = 'no_quantize'


def cfg(act=None, wbits=8, wsym=True, wgran='CHANNELWISE', wdtype='INT',
        cp='INTEGER', edq=False, asym=False, skip=False):
  d = {'weight_tensor_config': {'num_bits': wbits, 'symmetric': wsym,
                                'granularity': wgran, 'dtype': wdtype,
                                'block_size': 0},
       'compute_precision': cp, 'explicit_dequantize': edq,
       'skip_checks': skip}
  if act:
    d['activation_tensor_config'] = {
        'num_bits': act, 'symmetric': asym, 'granularity': 'TENSORWISE',
        'dtype': 'INT', 'block_size': 0}
  return d


# name -> (algorithm, config)
MODES = {
    'SRQ8a': (MMU, cfg(act=8)),                              # asym act, cw w
    'SRQ8s': (MMU, cfg(act=8, asym=True, wgran='TENSORWISE')),  # sym act, tw w
    'SRQ8at': (MMU, cfg(act=8, wgran='TENSORWISE')),
    'SRQ8sc': (MMU, cfg(act=8, asym=True)),
    'SRQ16': (MMU, cfg(act=16, asym=True)),
    'SRQ16t': (MMU, cfg(act=16, asym=True, wgran='TENSORWISE')),
    'SRQ8w4': (MMU, cfg(act=8, wbits=4)),
    'SRQ16w4': (MMU, cfg(act=16, asym=True, wbits=4)),
    'DRQ8c': (MMU, cfg()),
    'DRQ8t': (MMU, cfg(wgran='TENSORWISE')),
    'DRQ4c': (MMU, cfg(wbits=4)),
    'DRQ4t': (MMU, cfg(wbits=4, wgran='TENSORWISE')),
    'WO8c': (MMU, cfg(cp='FLOAT', edq=True)),
    'WO8t': (MMU, cfg(cp='FLOAT', edq=True, wgran='TENSORWISE')),
    'WO8a': (MMU, cfg(wsym=False, cp='FLOAT', edq=True)),
    'WO8at': (MMU, cfg(wsym=False, cp='FLOAT', edq=True, wgran='TENSORWISE')),
    'WO4c': (MMU, cfg(wbits=4, cp='FLOAT', edq=True)),
    'WO4a': (MMU, cfg(wbits=4, wsym=False, cp='FLOAT', edq=True)),
    'FP16': (FC_, cfg(wbits=16, wdtype='FLOAT', cp='FLOAT', edq=True)),
}
ALL_MODES = ['NQ'] + list(MODES)
# op-replacement (emulated sub-channel) mode: only in C01's alphabet
BLK8 = cfg(wbits=8, wgran='BLOCKWISE', cp='FLOAT', edq=True, skip=True)
BLK8['weight_tensor_config']['block_size'] = 2
MODES['BLK8'] = (MMU, BLK8)
# dynamic-range configs with asymmetric weights: refused by the unchanged
# library for every operator (the hybrid kernels have no weight zero point);
# in C06's alphabet so that a library that starts accepting them is measured
MODES['DRQ8a'] = (MMU, cfg(wsym=False))
MODES['DRQ4a'] = (MMU, cfg(wbits=4, wsym=False))
MODE12 = ['NQ', 'SRQ8a', 'SRQ8s', 'SRQ16', 'SRQ8w4', 'DRQ8c', 'DRQ8t', 'DRQ4c',
          'WO8c', 'WO8a', 'WO4c', 'FP16']


def kind(mode):
  if mode == 'NQ':
    return 'NQ'
  if mode == 'FP16':
    return 'FP16'
  return re.match(r'[A-Z]+', mode).group(0)


def act_bits(mode):
  c = MODES[mode][1].get('activation_tensor_config')
  return c['num_bits'] if c else None


def act_sym(mode):
  c = MODES[mode][1].get('activation_tensor_config')
  return c['symmetric'] if c else None


def wcfg(mode):
  return MODES[mode][1]['weight_tensor_config']


def rule(regex, op, mode):
  """One recipe entry for (regex, op, mode)."""
  if mode == 'NQ':
    return {'regex': regex, 'operation': op, 'algorithm_key': NOQ}
  alg, c = MODES[mode]
  return {'regex': regex, 'operation': op, 'algorithm_key': alg,
          'op_config': json.loads(json.dumps(c))}


_support_cache = {}


def supported(op_type, mode):
  """Observable accept/refuse behaviour of the library's own support check
  (an *input* to the reference models; the table itself is C13's subject)."""
  if mode == 'NQ':
    return True
  k = (op_type, mode)
  if k not in _support_cache:
    L = env.lib()
    alg, c = MODES[mode]
    try:
      name = L.qtyping.TFLOperationName(op_type)
    except ValueError:
      _support_cache[k] = False
      return False
    try:
      oc = L.qtyping.OpQuantizationConfig.from_dict(json.loads(json.dumps(c)))
      L.algorithm_manager.check_op_quantization_config(alg, name, oc)
      _support_cache[k] = True
    except ValueError:
      _support_cache[k] = False
  return _support_cache[k]


def shipped_recipes():
  """name -> recipe (list of dicts), loaded unchanged from the tree."""
  out = {}
  d = os.path.join(env.REPO, 'ai_edge_quantizer', 'recipes')
  for f in sorted(glob.glob(os.path.join(d, 'default_*.json')) +
                  glob.glob(os.path.join(d, 'dynamic_*.json'))):
    out[os.path.basename(f)[:-len('_recipe.json')]] = json.load(open(f))
  out['helper_dynamic_wi8_afp32'] = env.lib().recipe.dynamic_wi8_afp32()
  return out


def op_regex(built, meta):
  """Unanchored escaped output-tensor name of the operator; for operators at
  an odd position the name without its first character, i.e. a regex that is
  found in the scope but not at its start (rules apply on re.search)."""
  n = meta.scope_name(built)
  return re.escape(n[1:] if meta.index % 2 else n)


def per_op_recipe(built, modes, si=0):
  """R3: one scoped rule per operator (regex = escaped output name)."""
  r = []
  for meta, mode in zip(built.ops[si], modes):
    if mode is None:
      continue
    r.append(rule(op_regex(built, meta), meta.type, mode))
  return r


def io_rules(io):
  """R5: model INPUT/OUTPUT rules."""
  r = []
  if io in ('both8', 'in8'):
    r.append(rule('.*', 'INPUT', 'SRQ8a'))
  if io in ('both8', 'out8'):
    r.append(rule('.*', 'OUTPUT', 'SRQ8a'))
  if io == 'both16':
    r.append(rule('.*', 'INPUT', 'SRQ16'))
    r.append(rule('.*', 'OUTPUT', 'SRQ16'))
  return r
