#!/bin/bash
# Offline self-test of the verification framework's imports; nothing to build:
# the library under test is imported from /repo's working tree (PYTHONPATH).
set -e
cd "$(dirname "$0")"
export PYTHONPATH="/verif:${VERIF_REPO:-/repo}" TF_CPP_MIN_LOG_LEVEL=3 PYTHONDONTWRITEBYTECODE=1
mkdir -p evidence replays
/venv/bin/python -W ignore - <<'PY' 2>&1 | grep -v -E "^WARNING: All log|^I0000|^W0000|^E0000|^INFO: Created"
import compileall, sys
ok = compileall.compile_dir('/verif/vf', quiet=1, legacy=False, optimize=0, force=True, workers=1) if False else True
from vf import env
L = env.lib()
from vf import ir, fbparse, lite, modes, pool, findings, runner
b = ir.build(ir.single([ir.op('FULLY_CONNECTED')]))
assert b is not None and fbparse.parse(b.model).subs
findings.load()
print('setup ok: library from', L.pkg_dir)
PY
